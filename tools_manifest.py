"""Regenerates MANIFEST.json from one table (kept valid at all times)."""
import json

CLAIMED = {
    "C01": {
        "level": "exploration",
        "text": "Seeded search over call histories of the eleven QC test functions (fresh calls incl. n=0,1,2, repeats on the same argument objects, new data with an earlier call's parameter objects) executed in one process, with every call's reference execution in its own process forked from a pristine worker under a different dirty-allocator pattern; totality, shape, flag alphabet, unmasked output, byte-identical arguments, equality with the pristine call and immutability of earlier outputs are checked per call. Sampling, not proof.",
        "ref": "DESIGN.md section 3 (C01)",
        "note": "What is simulated is the history / heap dimension only: that a call's result does not depend on what ran before or on uninitialised memory. Flag semantics per test are other (not-applicable) properties. Three crashes found this way were repaired by fix: commits.",
        "technique": "deterministic simulation: seeded call histories vs fork-per-call pristine reference executions under a dirty allocator",
    },
    "C20": {
        "level": "exploration",
        "text": "Seeded search over evaluation histories against the interpreter-wide expression stack (valid evaluations, rejected inputs that leave debris, evaluations raising mid-way, repeats, validator calls, create_config over real NetCDF climatology files); every value is compared bitwise with an AST evaluator, create_config spans with a grid-cell model (rtol 1e-9). Sampling, not proof.",
        "ref": "DESIGN.md section 3 (C20)",
        "note": "Trusts the AST evaluator and the cell-statistics model; exprStack is cleared at scenario start to stand for a fresh interpreter; only unambiguous validator tokens; bounding boxes contain a valid cell.",
        "technique": "deterministic simulation: seeded operation histories (incl. rejected operations as the fault) over shared module state, file-backed climatology, reference-model oracle",
    },
    "C19": {
        "level": "exploration",
        "text": "Seeded search over store operation histories (save with all flag/filter combinations, compute_aggregate in any position, repeated saves) on a PandasStore built directly on a faulty, partially windowed stream run with CF-hostile stream ids, under the dirty allocator; every frame is compared with a model built from the messages the store consumed. Sampling, not proof.",
        "ref": "DESIGN.md section 3 (C19)",
        "note": "Naming and filter clauses are functions of their inputs and are decided by workload variation; the simulated dimensions are the operation history on one store object, fault entries upstream and the dirty allocator behind 'empty where not evaluated'. Exact names asserted only for already CF-safe parts. Sanitised-name collisions are a listed known finding.",
        "technique": "deterministic simulation: seeded operation histories on one store object fed by a fault-injected stream run, dirty allocator, message-derived frame model",
    },
    "C04": {
        "level": "exploration",
        "text": "Seeded search over multisets of flag vectors delivered as permuted / duplicated / regrouped message sequences through all three aggregation entry points, with adversarial bytes beneath masks (explicit and via the dirty allocator); every aggregate is compared with a pointwise precedence-join model and all deliveries of one multiset with each other. Sampling, not proof.",
        "ref": "DESIGN.md section 3 (C04)",
        "note": "Trusts the join model (rank 9<2<1<3<4 over unmasked flag values, 9 when none); inputs are equal-length 1-d numpy / masked arrays.",
        "technique": "deterministic simulation: seeded delivery permutations/duplications/regroupings into the aggregation merge, adversarial bytes under masks via dirty allocator, join-model oracle",
    },
    "C06": {
        "level": "exploration",
        "text": "Seeded search over message histories (hand-built and stream-produced ContextResults over disjoint window layouts) delivered in several seeded orders through a lazy iterator to both collectors under a dirty allocator; every collected array is compared row by row with a map model, the two forms with each other and all orders with each other. Sampling, not proof.",
        "ref": "DESIGN.md section 3 (C06)",
        "note": "Trusts the map model key -> row -> flag built from the messages themselves; disjoint windows only; three collector defects found this way are repaired by fix: commits (known_findings.jsonl).",
        "technique": "deterministic simulation: seeded delivery orders of ContextResult messages into the collector fold, list/dict as replicas, dirty allocator, map-model oracle",
    },
    "C05": {
        "level": "exploration",
        "text": "Seeded search over tables x configs x front-end sets x generator interleavings (abandon / restart / re-run / two configs on one stream object) x hash seeds x dirty-allocator patterns; each yielded ContextResult is compared with a reference window model, a direct call of the real test function on plain arrays, and the arguments a recording probe function received; replicas are compared pairwise. Sampling, not proof.",
        "ref": "DESIGN.md section 3 (C05)",
        "note": "Trusts the reference window model (starting <= t < ending) and the direct call as the meaning of 'calling the test directly'; naive whole-second strictly increasing times.",
        "technique": "deterministic simulation: replicas of one run under a seeded cooperative scheduler (interleave/abandon/restart), seeded hash seed and dirty allocator, probe QC function, reference-model oracle",
    },
    "C18": {
        "level": "fault_enumeration",
        "text": "Three finite families are enumerated completely on all six stream front ends (every single fault of six kinds at every position of two base configs; a dead context at every position; abandon+restart at every yield point) and seeded multi-fault sequences (incl. fault storms, data-dependent and uncopyable-parameter faults) under interleaved/abandoned/restarted/re-run generators are searched; each entry is compared bit for bit with its own solo run. Evidence of absence of interference within those bounds, not a proof.",
        "ref": "DESIGN.md section 3 (C18)",
        "note": "Trusts: the solo run (executed in a pristine process forked before the faulty run) as the meaning of 'the result it yields when configured alone'; faults are those of DESIGN 2.4 (no BaseException, no source I/O errors). Every scenario runs in its own forked process (DESIGN 9.2).",
        "technique": "deterministic simulation: exhaustive single-fault injection + seeded fault-sequence search under a cooperative generator scheduler, differential solo-run oracle",
    },
}

NA = {}

def main():
    props = [json.loads(l) for l in open("properties.jsonl")]
    na_reasons = json.load(open("not_applicable.json"))
    checks = []
    for pid, c in sorted(CLAIMED.items()):
        checks.append({
            "property_id": pid,
            "quick_cmd": f"./check {pid} --tier quick",
            "thorough_cmd": f"./check {pid} --tier thorough",
            "evidence_file": f"/verif/evidence/{pid}.json",
            "replay_cmd_template": "./check --replay {path}",
            "engine": "ioosqc-sim",
            "level_claimed": {"category": c["level"], "text": c["text"], "design_ref": c["ref"]},
            "level_note": c["note"],
            "technique": c["technique"],
        })
    na = [{"property_id": p["id"], "reason": na_reasons[p["id"]]} for p in props if p["id"] not in CLAIMED]
    m = {
        "version": 1,
        "setup_cmd": "/venv/bin/python -m compileall -q sim >/dev/null 2>&1; /venv/bin/python -c 'import hypothesis' 2>/dev/null || /venv/bin/pip install -q --no-index --find-links /opt/veriftools/wheels hypothesis; true",
        "hooks": {
            "guard": "none (no hook in /repo: every seam is reachable from outside)",
            "enable": "nothing to enable; checks run /repo's working tree via PYTHONPATH (VERIF_REPO, default /repo)",
            "baseline_off_cmd": "cd /repo && /venv/bin/python -m pytest -ra -q -p no:cacheprovider --timeout=900 --continue-on-collection-errors",
            "source_commits": [],
            "add_only": True,
        },
        "engines": [{
            "name": "ioosqc-sim",
            "path": "/verif/sim",
            "serves_properties": sorted(CLAIMED),
            "kind_free_text": "deterministic simulation with fault injection: seeded scenario documents, cooperative generator scheduler, dirty allocator, fault/probe QC functions, exec'd workers with seeded PYTHONHASHSEED, structural shrinker, replay files",
        }],
        "checks": checks,
        "not_applicable": na,
        "notes": "Exit 0 held / 1 VIOLATION / 2 harness error. 12 fix: commits in /repo are listed in known_findings.jsonl (status fixed, each with a demonstration under findings/); one known finding (C19 sanitised-name collision). ./check selftest = determinism; ./check mutants = 41 hand-written + 119 independently written breaking changes (seeded/): all caught except two recorded in their meta.json. See DESIGN.md sections 9-11.",
    }
    json.dump(m, open("MANIFEST.json", "w"), indent=1)

if __name__ == "__main__":
    main()
