"""C20 - generated configs evaluate their limit expressions correctly and
statelessly.

One interpreter-wide ``fx_parser.exprStack`` is driven through a seeded
*history* of operations: EVAL of AST-rendered expressions, REJECTed inputs that
fail after tokens were already pushed (the only thing that leaves the shared
state torn), evaluations that raise mid-way, token validation, and
create_config over a real NetCDF climatology file (DESIGN.md section 3, C20).
"""
import copy
import math
import os

import numpy as np

from sim import seams, workload as wl
from sim.util import digest, exc_signature, violation

PROP = "C20"
STATS = ("min", "max", "mean", "std")
OPS = {"+": 1, "-": 1, "*": 2, "/": 2}


# --------------------------------------------------------------------------
# expression ASTs: ["num", text] | ["stat", name] | ["neg", node] | ["bin", op, l, r] | ["par", node]
# --------------------------------------------------------------------------
def gen_ast(rng, depth):
    if depth <= 0 or rng.chance(0.25):
        if rng.chance(0.5):
            return ["stat", rng.pick(STATS)]
        v = rng.weighted([(rng.randint(0, 9), 4), (rng.dyadic(0, 8, 8), 3), (round(rng.uniform(0, 100), rng.randint(1, 4)), 2), (0, 1)])
        text = repr(float(v)) if not float(v).is_integer() else (str(int(v)) if rng.chance(0.7) else f"{int(v)}.0")
        if rng.chance(0.1):
            text = f"{int(float(v))}."
        return ["num", text]
    kind = rng.weighted([("bin", 7), ("neg", 2), ("par", 1)])
    if kind == "neg":
        return ["neg", gen_ast(rng, depth - 1)]
    if kind == "par":
        return ["par", gen_ast(rng, depth - 1)]
    return ["bin", rng.pick("+-*/"), gen_ast(rng, depth - 1), gen_ast(rng, depth - 1)]


def prec(node):
    if node[0] == "bin":
        return OPS[node[1]]
    if node[0] == "neg":
        return 3
    return 4


def render(node, spaces=True):
    """Tokens of the expression, parenthesised exactly where the grammar needs it."""
    k = node[0]
    if k in ("num", "stat"):
        return [node[1]]
    if k == "par":
        return ["("] + render(node[1]) + [")"]
    if k == "neg":
        inner = render(node[1])
        if node[1][0] == "bin":
            inner = ["("] + inner + [")"]
        return ["-"] + inner
    _, op, left, right = node
    lt, rt = render(left), render(right)
    if prec(left) < OPS[op]:
        lt = ["("] + lt + [")"]
    if prec(right) <= OPS[op]:
        rt = ["("] + rt + [")"]
    return lt + [op] + rt


def to_text(tokens, style):
    if style == "spaced":
        return " ".join(tokens)
    if style == "tight":
        out = ""
        for t in tokens:
            out += t
        return out
    # mixed: deterministic alternation
    out = ""
    for i, t in enumerate(tokens):
        out += t + (" " if i % 3 == 0 else "")
    return out.strip()


def model_eval(node, stats):
    k = node[0]
    if k == "num":
        return float(node[1])
    if k == "stat":
        return stats[node[1]]
    if k == "par":
        return model_eval(node[1], stats)
    if k == "neg":
        return -model_eval(node[1], stats)
    _, op, left, right = node
    a, b = model_eval(left, stats), model_eval(right, stats)
    if op == "+":
        return a + b
    if op == "-":
        return a - b
    if op == "*":
        return a * b
    return a / b


REJECTS = (
    "( 1 + 2",
    "1 +",
    "mean mean",
    "1 2",
    "( max * 3 ) )",
    "* 3",
    "2 * ( std + ",
    "min - ",
    "1 + foo",
    "mean * bar2",
    "( 4 / ( 2 - ",
    "max + + ",
    "",
    "3 $ 4",
    "( ( mean )",
    "1 + 2 3",
)

VALID_TOKENS = ("1", "2.5", "-3", "0", "10.25", "min", "max", "mean", "std", "+", "-", "*", "/", "(", ")")
INVALID_TOKENS = ("+-", "*/", "()", "-*", "", "std\n", "mean\n", ")\n", "+\n", "\nmax", "min\r", "foo", "min2", "mean*2", "sqrt", "^", "%", "max,", "(1", "2)", "Mean", "MIN", "st", "x", "1+1", "pi", "e", "**", "//", "[", "abs")


def gen_stats(rng):
    style = rng.pick(("dyadic", "float", "int"))
    if style == "dyadic":
        return {k: rng.dyadic(-8, 8, 8) for k in STATS}
    if style == "int":
        return {k: float(rng.randint(-5, 20)) for k in STATS}
    return {k: rng.uniform(-50, 50) for k in STATS}


def gen_grid(rng):
    nlat, nlon = rng.randint(2, 5), rng.randint(2, 5)
    lat0, lon0 = rng.randint(-40, 40), rng.randint(-150, 150)
    lat = [lat0 + i for i in range(nlat)]
    lon = [lon0 + i for i in range(nlon)]
    scale = rng.weighted([(1.0, 8), (2.0**-40, 1), (2.0**20, 1)])  # trace quantities / large counts (exact scalings)
    field = [[(None if rng.chance(0.15) else rng.dyadic(1, 30, 4) * scale) for _ in range(nlon)] for _ in range(nlat)]
    if rng.chance(0.3):  # north-to-south latitudes, as many reanalysis products store them
        lat = lat[::-1]
        field = field[::-1]
    if rng.chance(0.15):
        lon = lon[::-1]
        field = [row[::-1] for row in field]
    return {"lat": lat, "lon": lon, "field": field, "year": rng.pick((2001, 2005, 2018)), "levels": rng.pick((0, 0, 2, 3))}


def gen_bbox(rng, grid):
    """Edges on grid lines or between them; must contain at least one valid cell."""
    for _ in range(20):
        i0, i1 = sorted((rng.randrange(len(grid["lat"])), rng.randrange(len(grid["lat"]))))
        j0, j1 = sorted((rng.randrange(len(grid["lon"])), rng.randrange(len(grid["lon"]))))
        cells = [grid["field"][i][j] for i in range(i0, i1 + 1) for j in range(j0, j1 + 1)]
        if any(c is not None for c in cells):
            pad = lambda: rng.pick((0, 0, 0.25, 0.5))  # noqa: E731
            las = sorted((grid["lat"][i0], grid["lat"][i1]))
            los = sorted((grid["lon"][j0], grid["lon"][j1]))
            return [los[0] - pad(), las[0] - pad(), los[1] + pad(), las[1] + pad()]
    return None


def gen_create(rng, grids, empty_ok=False):
    gi = rng.randrange(len(grids))
    bbox = gen_bbox(rng, grids[gi])
    if bbox is None:
        return None
    if empty_ok and rng.chance(0.5):
        # a box with no grid cell in it at all: create_config widens it until it finds data. Whatever it
        # returns is not judged (outside the property); what the call leaves behind is part of the history
        g = grids[gi]
        bbox = [min(g["lon"]) - 3.25, min(g["lat"]) - 3.25, min(g["lon"]) - 2.75, min(g["lat"]) - 2.75]
    start_m, start_d = rng.randint(1, 12), rng.randint(1, 28)
    year = rng.pick((2019, 2020, 2021))
    length = rng.randint(2, 300)
    tests = {}
    for name in rng.subset(["gross_range_test", "spike_test", "rate_of_change_test", "flat_line_test"], 0.5, at_least=1):
        def ex():
            ast = gen_ast(rng, rng.randint(0, 3))
            return {"ast": ast, "text": to_text(render(ast), "spaced")}

        if name == "gross_range_test":
            tests[name] = {k: ex() for k in ("suspect_min", "suspect_max", "fail_min", "fail_max")}
        elif name == "spike_test":
            tests[name] = {k: ex() for k in ("suspect_threshold", "fail_threshold")}
        elif name == "rate_of_change_test":
            tests[name] = {"threshold": ex()}
        else:
            tests[name] = {k: ex() for k in ("suspect_threshold", "fail_threshold", "tolerance")}
    op = {"op": "create", "grid": gi, "bbox": bbox, "start": [year, start_m, start_d], "days": length, "tests": tests, "via": rng.pick(("dict", "dict", "str_path", "Path"))}
    if empty_ok and bbox[2] < min(grids[gi]["lon"]):
        op["unchecked"] = True
    return op


def generate(rng, tier="quick"):
    grids = [gen_grid(rng) for _ in range(rng.randint(1, 2))]
    ops = []
    evals = []
    for _ in range(rng.randint(1, 40 if tier == "thorough" else 24)):
        if rng.chance(0.004):
            # a long-lived interpreter: the stack holds what N earlier evaluations of "1" left on it
            ops.append({"op": "age", "evaluations": rng.pick((2**10, 2**12, 2**16, 2**20)) - rng.randint(0, 12)})
        kind = rng.weighted([("eval", 10), ("reject", 5), ("repeat", 2), ("restat", 2), ("validate", 3), ("revalidate", 1.5), ("create", 2.0)])
        if kind == "eval":
            ast = gen_ast(rng, rng.randint(0, 4))
            op = {"op": "eval", "ast": ast, "text": to_text(render(ast), rng.pick(("spaced", "tight", "mixed"))), "stats": gen_stats(rng)}
            evals.append(op)
            ops.append(op)
        elif kind == "repeat" and evals:
            ops.append(copy.deepcopy(rng.pick(evals)))
        elif kind == "restat" and evals:
            op = copy.deepcopy(rng.pick(evals))  # the same text, other statistics
            op["stats"] = gen_stats(rng)
            ops.append(op)
        elif kind == "reject":
            ops.append({"op": "reject", "text": rng.pick(REJECTS), "stats": gen_stats(rng)})
        elif kind == "revalidate" and any(o["op"] == "validate" for o in ops):
            # the very same specification validated again: the verdict may not depend on having been asked before
            ops.append(copy.deepcopy(rng.pick([o for o in ops if o["op"] == "validate"])))
        elif kind == "validate":
            toks = [rng.pick(VALID_TOKENS) for _ in range(rng.randint(1, 6))]
            valid = True
            if rng.chance(0.5):
                toks.insert(rng.randint(0, len(toks)), rng.pick(INVALID_TOKENS))
                valid = False
            ops.append({"op": "validate", "tokens": toks, "valid": valid, "with_bbox": rng.chance(0.3), "section": rng.pick(("gross_range_test", "location_test", "spike_test"))})
        elif kind == "create":
            creates = [o for o in ops if o["op"] == "create" and "vc_from" not in o]
            if creates and rng.chance(0.5):
                # the same QcVariableConfig object (same bbox list, same test specs) handed to a creator again,
                # possibly the creator of another climatology
                j = rng.pick([i for i, o in enumerate(ops) if o["op"] == "create" and "vc_from" not in o])
                c = copy.deepcopy(ops[j])
                c["vc_from"] = ops[j]["uid"]
                c["uid"] = len(ops)
                c["grid"] = rng.randrange(len(grids))
                c.pop("unchecked", None)
                ops.append(c)
            else:
                c = gen_create(rng, grids, empty_ok=rng.chance(0.45))
                if c:
                    c["uid"] = len(ops)
                    ops.append(c)
    return {"format": 1, "property": PROP, "env": wl.gen_env(rng), "grids": grids, "ops": ops, "multi_dataset": len(grids) > 1 and rng.chance(0.5)}


# --------------------------------------------------------------------------
# execution
# --------------------------------------------------------------------------
_GRID_FILES = {}


def grid_file(grid, varname="temp"):
    import pandas as pd
    import xarray as xr

    key = digest([grid, varname])
    path = _GRID_FILES.get(key)
    if path and os.path.exists(path):
        return path
    t = pd.date_range(f"{grid['year']}-01-01", periods=12, freq="MS") + pd.Timedelta(days=14)
    f = np.array([[np.nan if v is None else v for v in row] for row in grid["field"]], dtype="float64")
    coords = {"time": t, "lat": np.array(grid["lat"], dtype="float64"), "lon": np.array(grid["lon"], dtype="float64")}
    if grid.get("levels"):
        # a 3-d climatology: the surface level (index 0) is the one create_config uses
        lv = np.stack([f + 100.0 * k for k in range(grid["levels"])])
        data = np.broadcast_to(lv, (12,) + lv.shape).copy()
        coords["depth"] = np.arange(grid["levels"], dtype="float64") * 10
        ds = xr.Dataset({varname: (("time", "depth", "lat", "lon"), data)}, coords=coords)
    else:
        data = np.broadcast_to(f, (12,) + f.shape).copy()
        ds = xr.Dataset({varname: (("time", "lat", "lon"), data)}, coords=coords)
    path = os.path.join(seams.scratch_dir(), f"clim-{key}.nc")
    ds.to_netcdf(path, engine="scipy", format="NETCDF3_64BIT")
    _GRID_FILES[key] = path
    return path


def model_stats(grid, bbox):
    cells = []
    for i, la in enumerate(grid["lat"]):
        for j, lo in enumerate(grid["lon"]):
            if bbox[1] <= la <= bbox[3] and bbox[0] <= lo <= bbox[2] and grid["field"][i][j] is not None:
                cells.append(grid["field"][i][j])
    arr = np.array(cells, dtype="float64")
    return {"min": float(arr.min()), "max": float(arr.max()), "mean": float(arr.mean()), "std": float(arr.std())}


def via_file(doc, via, stem):
    """The config as a dict, or written to a JSON file and given as str / Path (both documented)."""
    if via == "dict":
        return doc
    import json
    from pathlib import Path

    path = os.path.join(seams.scratch_dir(), f"{stem}.json")
    with open(path, "w") as f:
        json.dump(doc, f)
    return path if via == "str_path" else Path(path)


def has_valid_cell(grid, bbox):
    return any(
        bbox[1] <= la <= bbox[3] and bbox[0] <= lo <= bbox[2] and grid["field"][i][j] is not None
        for i, la in enumerate(grid["lat"])
        for j, lo in enumerate(grid["lon"])
    )


def same_float(a, b):
    if isinstance(a, float) and isinstance(b, float):
        return a == b or (a != a and b != b)
    return a == b


def execute(scn):
    import datetime

    from ioos_qc.config_creator import CreatorConfig, QcConfigCreator, QcVariableConfig, fx_parser

    seams.set_dirty(scn["env"].get("dirty"))
    del fx_parser.exprStack[:]  # a fresh interpreter's state; everything after this is the history
    V = []
    stats = {"probes": {}, "faults": {}, "ops": 0}

    def bump(k, c=1):
        stats["probes"][k] = stats["probes"].get(k, 0) + c

    events, results = [], []
    seen = {}
    creators = {}
    vcs = {}
    rejected_before = False
    for i, op in enumerate(scn["ops"]):
        stats["ops"] += 1
        kind = op["op"]
        before = len(fx_parser.exprStack)
        if kind == "age":
            # history compression: evaluating the expression "1" pushes exactly one token "1" and returns 1.0;
            # N such evaluations leave N tokens behind. Push them directly instead of parsing N times.
            fx_parser.exprStack.extend(["1"] * max(0, op["evaluations"] - len(fx_parser.exprStack)))
            bump("aged_interpreter")
            rejected_before = True
            events.append(("OP", kind, len(fx_parser.exprStack)))
            continue
        if kind == "eval":
            try:
                want = model_eval(op["ast"], op["stats"])
                raises = None
            except ZeroDivisionError:
                want, raises = None, "ZeroDivisionError"
            try:
                got = fx_parser.eval_fx(op["text"], dict(op["stats"]))
                err = None
            except Exception as e:  # noqa: BLE001
                got, err = None, e
            if raises:
                bump("eval_raises_midway")
                stats["faults"]["raise-mid-evaluation"] = stats["faults"].get("raise-mid-evaluation", 0) + 1
                if err is None:
                    V.append(violation(PROP, "a", "eval_fx", "no-error-on-division-by-zero", f"{op['text']!r} -> {got}"))
                elif type(err).__name__ != "ZeroDivisionError":
                    V.append(violation(PROP, "a", "eval_fx", f"wrong-error:{type(err).__name__}", f"{op['text']!r}"))
                rejected_before = True
            elif err is not None:
                V.append(violation(PROP, "a", "eval_fx", "valid-expression-rejected:" + type(err).__name__, f"op {i} {op['text']!r}: {err!r}"))
            elif not same_float(float(got), float(want)):
                sig = "wrong-value-after-rejected-input" if rejected_before else "wrong-value"
                V.append(violation(PROP, "a", "eval_fx", sig, f"op {i} {op['text']!r} stats {op['stats']}: got {got!r} want {want!r}"))
            else:
                if rejected_before:
                    bump("eval_correct_after_debris")
            key = digest([op["text"], op["stats"]])
            rec = repr(got) if err is None else "raised:" + type(err).__name__
            if key in seen:
                if seen[key] != rec:
                    V.append(violation(PROP, "b", "eval_fx", "same-eval-differs-by-position", f"{op['text']!r}: {seen[key]} then {rec}"))
                else:
                    bump("repeat_same_value")
            seen[key] = rec
            results.append(rec)
        elif kind == "reject":
            stats["faults"]["rejected-input"] = stats["faults"].get("rejected-input", 0) + 1
            try:
                got = fx_parser.eval_fx(op["text"], dict(op["stats"]))
                results.append("accepted:" + repr(got))
                bump("reject_was_accepted")
            except Exception as e:  # noqa: BLE001 - what the rejection looks like is not asserted
                results.append("rejected:" + type(e).__name__)
                rejected_before = True
            if len(fx_parser.exprStack) > before:
                bump("exprStack_debris")
        elif kind == "revalidate" and any(o["op"] == "validate" for o in ops):
            # the very same specification validated again: the verdict may not depend on having been asked before
            ops.append(copy.deepcopy(rng.pick([o for o in ops if o["op"] == "validate"])))
        elif kind == "validate":
            spec = " ".join(op["tokens"])
            section = {"suspect_min": spec, "suspect_max": "1", "fail_min": "1", "fail_max": "1"}
            if op.get("with_bbox"):
                section = dict([("bbox", [-10, -10, 10, 10])] + list(section.items()))  # a box next to the limits: only the box is exempt
            cfgd = {"variable": "temperature", "bbox": [0, 0, 1, 1], "start_time": "2020-01-01", "end_time": "2020-02-01", "tests": {op.get("section", "gross_range_test"): section}}
            try:
                QcVariableConfig(cfgd)
                ok, err = True, None
            except ValueError as e:
                ok, err = False, e
            except Exception as e:  # noqa: BLE001
                V.append(violation(PROP, "c", "QcVariableConfig", "rejects-with-" + type(e).__name__, f"{spec!r}: {e!r}"))
                results.append("other")
                continue
            if ok != op["valid"]:
                V.append(violation(PROP, "c", "QcVariableConfig", "accepted-invalid" if ok else "rejected-valid", f"{spec!r}"))
            results.append(ok)
        elif kind == "create":
            grid = scn["grids"][op["grid"]]
            try:
                multi = scn.get("multi_dataset") and len(scn["grids"]) > 1
                ckey = "all" if multi else op["grid"]
                if ckey not in creators:
                    dsds = []
                    for gi, g in enumerate(scn["grids"]):
                        if not multi and gi != op["grid"]:
                            continue
                        # one creator over several climatologies: the QC name of a later data set's variable may
                        # well be spelled like the in-file name of an earlier one (q0 -> q1, q1 -> q2, ...)
                        qc_name, in_file = (f"q{gi}", f"q{gi + 1}") if multi else ("temperature", "temp")
                        dsd = {"name": f"clim{gi}", "file_path": grid_file(g, in_file), "variables": {qc_name: in_file}}
                        if g.get("levels"):
                            dsd["3d"] = "depth"
                            bump("climatology_3d")
                        dsds.append(dsd)
                    if multi:
                        bump("creator_over_several_datasets")
                    creators[ckey] = QcConfigCreator(CreatorConfig(via_file({"datasets": dsds}, op.get("via", "dict"), f"creator{ckey}")))
                qc = creators[ckey]
                qc_var = f"q{op['grid']}" if multi else "temperature"
                y, m, d = op["start"]
                start = datetime.date(y, m, d)
                end = start + datetime.timedelta(days=op["days"])
                tests = {name: {k: v["text"] for k, v in fields.items()} for name, fields in op["tests"].items()}
                if "vc_from" in op and op["vc_from"] in vcs:
                    vc = vcs[op["vc_from"]]
                    bump("variable_config_reused")
                else:
                    vc = QcVariableConfig(via_file({"variable": qc_var, "bbox": list(op["bbox"]), "start_time": start.isoformat(), "end_time": end.isoformat(), "tests": tests}, op.get("via", "dict"), f"var{i}"))
                vcs[op.get("uid", i)] = vc
                if multi and vc.get("variable") != qc_var:
                    vc = QcVariableConfig(dict(vc, variable=qc_var))  # a reused variable config names the variable of this data set
                    vcs[op.get("uid", i)] = vc
                out = qc.create_config(vc)[qc_var]["qartod"]
            except ZeroDivisionError:
                results.append("zero-division")
                bump("create_zero_division")
                rejected_before = True
                continue
            except Exception as e:  # noqa: BLE001
                V.append(violation(PROP, "d", "create_config", exc_signature(e), f"op {i}: {e!r}"))
                results.append("raised")
                continue
            bump("create_config")
            if op.get("unchecked") or not has_valid_cell(grid, op["bbox"]):
                bump("create_on_empty_box_unjudged")
                results.append("unjudged")
                events.append(("OP", kind, len(fx_parser.exprStack)))
                continue
            ms = model_stats(grid, op["bbox"])
            flat = {}
            for name, fields in op["tests"].items():
                sec = out[name]
                if name == "gross_range_test":
                    flat[(name, "suspect_min")], flat[(name, "suspect_max")] = sec["suspect_span"]
                    flat[(name, "fail_min")], flat[(name, "fail_max")] = sec["fail_span"]
                else:
                    for k in fields:
                        flat[(name, k)] = sec[k]
            bad = None
            for (name, k), got in sorted(flat.items()):
                try:
                    want = model_eval(op["tests"][name][k]["ast"], ms)
                except ZeroDivisionError:
                    continue
                mag = max(abs(ms["min"]), abs(ms["max"]), 1e-300)
                if not (math.isclose(float(got), want, rel_tol=1e-9, abs_tol=1e-9 * min(1.0, mag)) or (got != got and want != want)):
                    bad = (name, k, got, want)
                    break
            if bad:
                sig = "span-differs-after-rejected-input" if rejected_before else "span-differs"
                V.append(violation(PROP, "d", "create_config", sig, f"op {i} {bad[0]}.{bad[1]} {op['tests'][bad[0]][bad[1]]['text']!r}: got {bad[2]!r} want {bad[3]!r} (stats {ms}, bbox {op['bbox']})"))
            results.append([repr(float(v)) for _, v in sorted(flat.items())])
        events.append(("OP", kind, len(fx_parser.exprStack)))
    stats["probes"]["exprStack_final_len"] = len(fx_parser.exprStack)
    return {
        "violations": V,
        "stats": stats,
        "events": len(events),
        "event_digest": digest(events),
        "schedule_digest": digest([o["op"] for o in scn["ops"]]),
        "end_state": digest(results),
        "nontrivial": len(scn["ops"]) > 1 and any(o["op"] == "reject" for o in scn["ops"]),
    }


def candidates(scn):
    from sim.shrink import ops_candidates

    yield from ops_candidates(scn)
    for i, op in enumerate(scn["ops"]):
        if op["op"] == "create" and len(op["tests"]) > 1:
            for name in op["tests"]:
                c = copy.deepcopy(scn)
                del c["ops"][i]["tests"][name]
                yield c
        if op["op"] == "eval" and op["ast"][0] == "bin":
            for child in (op["ast"][2], op["ast"][3]):
                c = copy.deepcopy(scn)
                c["ops"][i]["ast"] = child
                c["ops"][i]["text"] = to_text(render(child), "spaced")
                yield c


BUDGET = {
    "quick": {"runs": 6000, "seconds": 45, "selfcheck": 3, "crosscheck": 12},
    "thorough": {"runs": 300000, "seconds": 1200, "selfcheck": 20, "crosscheck": 60},
}

EVIDENCE = {
    "level": "exploration",
    "rule": (
        "Seeded histories of 1-24 (thorough: 40) operations against the one module-level exprStack of a fresh forked process: EVAL of "
        "expressions rendered from generated ASTs (depth <= 4; numbers, min/max/mean/std, + - * /, stacked unary minus, parentheses; "
        "spaced, tight and mixed spacing) compared bitwise with an AST evaluator; REJECT inputs that fail after tokens were pushed or name "
        "unknown identifiers; evaluations that raise ZeroDivisionError mid-way; repeated EVALs and the same text with other statistics; "
        "QcVariableConfig token validation (incl. tokens with a line terminator, a bbox entry next to the limits, the same spec validated "
        "twice); create_config over real NetCDF3 climatology files (12 monthly steps, 2-d or 3-d, time-constant positive field of ordinary, "
        "tiny or large magnitude with NaN cells, ascending or descending axes, seeded bounding boxes incl. edges on grid lines and boxes "
        "without any cell, date ranges incl. new-year crossings, configs given as dict / file path, one variable config reused across "
        "creators). Non-trivial: at least two operations and at least one rejected input. Distinct: distinct (digest of all operation "
        "results, digest of the op-kind sequence). "
    ),
    "real": ["ioos_qc.config_creator.fx_parser (pyparsing grammar, exprStack, evaluate_stack, eval_fx)", "QcVariableConfig", "QcConfigCreator.create_config on NetCDF3 files via xarray/scipy", "scipy CubicSpline"],
    "stub": ["AST generator / renderer / evaluator (reference model)", "synthetic climatology grids", "dirty allocator wrappers"],
    "assumptions": [
        "exprStack is emptied at the start of each scenario = the state of a fresh interpreter; everything after is history",
        "only unambiguous token classes are generated for the validator (no nan/inf/1_0/hex, no double spaces)",
        "bounding boxes contain at least one valid cell (the padding loop for empty boxes is outside the property)",
        "create_config spans compared with rel/abs tolerance 1e-9 for the spline round-trip",
        "no unary plus and no '^': the property's grammar has neither",
    ],
}
