"""C01 - every QC test is a total, pure map from a series to one valid flag per point.

Simulated dimension: *call histories*.  A seeded history of calls (fresh calls,
repeats on the same argument objects, new data with the parameter objects of an
earlier call) runs in one process; the reference execution of every call runs
in its own child forked from a pristine post-import process that has never made
a QC call, under a different dirty-allocator pattern.  The worker itself never
calls a QC function, so it stays the pristine zygote (DESIGN.md section 3, C01).
"""
import copy
import json
import os
import signal
import traceback
from importlib import import_module

import numpy as np

from sim import seams, workload as wl
from sim.util import digest, exc_signature, violation

PROP = "C01"

# name -> (module, function, data arguments it takes, params generator, documents missing-data handling)
FUNCS = {
    "gross_range_test": ("qartod", ("inp",), wl.p_gross_range, True),
    "spike_test": ("qartod", ("inp",), wl.p_spike, True),
    "rate_of_change_test": ("qartod", ("inp", "tinp"), wl.p_roc, True),
    "flat_line_test": ("qartod", ("inp", "tinp"), wl.p_flat, True),
    "attenuated_signal_test": ("qartod", ("inp", "tinp"), None, True),
    "climatology_test": ("qartod", ("inp", "tinp", "zinp"), wl.p_clim, True),
    "density_inversion_test": ("qartod", ("inp", "zinp"), wl.p_density, True),
    "location_test": ("qartod", ("lon", "lat"), wl.p_location, True),
    "pressure_increasing_test": ("argo", ("inp",), lambda rng: {}, False),
    "speed_test": ("argo", ("lon", "lat", "tinp"), wl.p_speed, True),
    "valid_range_test": ("axds", ("inp",), wl.p_valid_range, True),
}
WEIGHTS = {"gross_range_test": 3, "spike_test": 4, "rate_of_change_test": 3, "flat_line_test": 3, "attenuated_signal_test": 3, "climatology_test": 5, "density_inversion_test": 3, "location_test": 2, "pressure_increasing_test": 2, "speed_test": 3, "valid_range_test": 4}


def p_atten_full(rng):
    f = rng.dyadic(0, 3)
    p = {"suspect_threshold": f + rng.dyadic(0, 3), "fail_threshold": f}
    if rng.chance(0.7):
        p["check_type"] = rng.pick(("std", "range"))
    if rng.chance(0.5):
        p["test_period"] = rng.pick((60, 3600, 86400, 86400 * 4))
        x = rng.random()
        if x < 0.35:
            p["min_obs"] = rng.randint(1, 3)
        elif x < 0.7:
            p["min_period"] = rng.pick((60, 3600, 7200, 86400))
        if p.get("check_type") == "range" and rng.chance(0.8):
            p["check_type"] = "std"  # the numba rolling path is compiled per process: keep it rare
    return p


# --------------------------------------------------------------------------
# generation
# --------------------------------------------------------------------------
def gen_series(rng, n, kind, missing_ok):
    nan_p = rng.pick((0.0, 0.1, 0.3, 1.0)) if rng.chance(0.7) else 0.0
    if kind == "inp":
        vals = wl.gen_values(rng, n, nan_p=nan_p)
        if n and rng.chance(0.06):
            # finite, but far from everyday magnitudes
            for _ in range(rng.randint(1, 2)):
                vals[rng.randrange(n)] = rng.pick((1e10, -1e10, 1e20, -1e20, 1e300, 1e-300, 2.0**53 + 1, 9.3e9))
        carrier = rng.weighted([("ndarray", 5), ("list", 4), ("masked", 2 if missing_ok else 0), ("masked_nan", 2 if missing_ok else 0), ("tuple", 1), ("readonly", 2), ("float32", 1), ("int_list", 1), ("int64", 1), ("int32", 1)])
        if carrier == "int_list":
            vals = [None if v is None else float(int(v)) for v in vals]
        if carrier in ("int64", "int32"):
            # an integer-typed column (counts, decibar readings logged as integers): no missing marker exists in it
            vals = [float(_small_int(rng, v)) for v in vals]
        return {"carrier": carrier, "values": vals, "under": rng.pick((0.0, 4.0, -1e6))}
    if kind == "tinp":
        return {"carrier": rng.weighted([("dt64", 6), ("epoch_list", 2), ("dt64_s", 2)]), "values": wl.gen_times(rng, n)}
    if kind == "zinp":
        z, d, direction = [], rng.dyadic(0, 4), rng.pick((1, 1, -1, 0))
        for _ in range(n):
            z.append(None if rng.chance(nan_p / 2) else d)
            d = d + direction * rng.dyadic(0, 2)
        return {"carrier": rng.pick(("ndarray", "list")), "values": z, "under": 0.0}
    if kind in ("lat", "lon"):
        lim = 80 if kind == "lat" else 170
        v, out = rng.dyadic(-lim // 2, lim // 2), []
        rest = rng.pick((0.0, 0.0, 0.5, 0.9))  # a platform at rest repeats its position exactly
        for _ in range(n):
            out.append(None if rng.chance(nan_p / 2) else v)
            if not rng.chance(rest):
                v = max(-lim, min(lim, v + rng.dyadic(-1, 1, 8)))
        return {"carrier": rng.pick(("ndarray", "list")), "values": out, "under": 0.0, "rest": rest}
    raise ValueError(kind)


def _small_int(rng, v):
    if v is None or abs(v) >= 2**30:
        return rng.randint(-9, 9)
    return int(v)


def gen_data(rng, fn, n=None):
    module, args, _, missing_ok = FUNCS[fn]
    if n is None and rng.chance(0.02):
        # lengths at and just past powers of two, where chunked / blocked implementations change behaviour
        n = rng.pick((64, 65, 256, 257, 1024, 1025, 4096, 4097))
    n = wl.gen_n(rng, 24) if n is None else n
    data = {a: gen_series(rng, n, a, missing_ok) for a in args}
    if "lat" in data and "lon" in data and n >= 2 and rng.chance(0.3):
        # both coordinates unchanged over some legs (the platform did not move at all)
        for i in range(1, n):
            if rng.chance(0.4) and data["lat"]["values"][i - 1] is not None and data["lon"]["values"][i - 1] is not None:
                data["lat"]["values"][i] = data["lat"]["values"][i - 1]
                data["lon"]["values"][i] = data["lon"]["values"][i - 1]
    if fn == "pressure_increasing_test":
        # NaN is the only missing marker this test is given (it documents none)
        data["inp"]["carrier"] = rng.pick(("ndarray", "list_nan"))
        if rng.chance(0.4):
            # pressures logged as whole decibars, rising or falling: an integer column has no missing marker
            data["inp"]["carrier"] = rng.pick(("int64", "int32"))
            data["inp"]["values"] = [float(_small_int(rng, v)) for v in data["inp"]["values"]]
    if fn == "valid_range_test" and n and rng.chance(0.4):
        # magnitudes at which "is this a number or an epoch time?" has different answers
        for _ in range(rng.randint(1, 2)):
            data["inp"]["values"][rng.randrange(n)] = rng.pick((1e10, 9.3e9, 1e20, -1e20, 1e19, 2.0**63))
        if rng.chance(0.6):
            data["inp"]["carrier"] = "list"
    if fn == "valid_range_test" and rng.chance(0.25):
        data["inp"] = {"carrier": "dt64_nat", "values": [None if rng.chance(0.15) else t for t in wl.gen_times(rng, n)]}
    return data


def perturb_data(rng, data):
    """A near-duplicate of an earlier call's data: same length, same end points, other
    interior - what a cache keyed on a cheap fingerprint of its input cannot tell apart."""
    out = copy.deepcopy(data)
    for k, spec in out.items():
        vals = spec["values"]
        n = len(vals)
        if n < 3 or rng.chance(0.3):
            continue
        if k == "tinp":
            lo, hi = vals[0], vals[-1]
            if hi - lo > n:
                inner = sorted(rng.sample(range(lo + 1, hi), n - 2))
                spec["values"] = [lo] + inner + [hi]
        elif spec["carrier"] != "dt64_nat":
            for _ in range(rng.randint(1, max(1, n // 3))):
                i = rng.randint(1, n - 2)
                vals[i] = None if rng.chance(0.15) else rng.dyadic(-8, 8)
    return out


def gen_params(rng, fn, data):
    gen = FUNCS[fn][2]
    if fn == "attenuated_signal_test":
        return p_atten_full(rng)
    p = gen(rng)
    if fn == "valid_range_test" and data["inp"]["carrier"] != "dt64_nat" and data["inp"]["values"] and rng.chance(0.4):
        # a reading a hair (less than a nanosecond's worth) away from a bound: still strictly on one side of it
        a, b = p["valid_span"]
        i = rng.randrange(len(data["inp"]["values"]))
        data["inp"]["values"][i] = rng.pick((a - 4e-10, a + 4e-10, b - 4e-10, b + 4e-10))
    if fn == "valid_range_test" and data["inp"]["carrier"] == "dt64_nat":
        ts = sorted(t for t in data["inp"]["values"] if t is not None) or [0, 10]
        a, b = ts[0] + rng.pick((-5, 0, 5)), ts[-1] + rng.pick((-5, 0, 5))
        p["valid_span"] = [wl_iso(min(a, b)), wl_iso(max(a, b))]
        p["dtype"] = "datetime64[ns]"
    if fn == "climatology_test" and rng.chance(0.6):
        p["__as_object__"] = True
    if fn == "climatology_test" and rng.chance(0.4):
        # each end point of a date span in its own spelling (all of them parse to the same instant)
        p["__tspan_forms__"] = [[rng.pick(("str", "datetime", "dt64", "timestamp", "date")) for _ in range(2)] for _ in p["config"]]
    if rng.chance(0.35) and p.get("dtype") is None:
        p["__form__"] = rng.pick(("tuples", "numpy"))  # the same values as tuples / numpy scalars
    return p


def wl_iso(epoch):
    from sim.pipeline import iso

    return iso(epoch)


def generate(rng, tier="quick"):
    ops = []
    calls = []
    names = sorted(FUNCS)
    # swarm: most histories use a small random subset of the functions, so that one function is
    # called many times with shared parameter objects and near-duplicate inputs
    k = rng.weighted([(1, 30), (2, 20), (3, 15), (len(names), 35)])
    names = sorted(rng.sample(names, k))
    mix = rng.pick(
        (
            [("call", 6), ("repeat", 2), ("same_params", 2), ("mutate", 1), ("bad_add", 1), ("edit_config", 1)],
            [("call", 3), ("repeat", 2), ("same_params", 4), ("mutate", 3), ("bad_add", 1), ("edit_config", 2)],
        ),
    )
    for _ in range(rng.randint(1, 30 if tier == "thorough" else 14)):
        kind = rng.weighted(mix)
        dirty = {"pattern": rng.weighted([("off", 1), ("flag", 5), ("ff", 2)]), "byte": rng.pick((1, 2, 3, 4, 9, 0, 255))}
        if kind == "call" or not calls:
            fn = rng.weighted([(f, WEIGHTS[f]) for f in names])
            data = gen_data(rng, fn)
            prev = [j for j in calls if ops[j]["fn"] == fn]
            if prev and rng.chance(0.3):
                data = perturb_data(rng, ops[rng.pick(prev)]["data"])
            op = {"op": "call", "fn": fn, "data": data, "params": gen_params(rng, fn, data), "dirty": dirty}
            calls.append(len(ops))
        elif kind == "repeat":
            op = {"op": "repeat", "of": rng.pick(calls), "dirty": dirty}
        elif kind == "mutate":
            # the caller overwrites its own buffers in place and calls again with the very same objects
            of = rng.pick(calls)
            src = ops[of]
            data = perturb_data(rng, src["data"])
            if any(len(data[k]["values"]) != len(src["data"][k]["values"]) for k in data) or any(v["carrier"] in ("dt64_nat", "tuple", "readonly", "int64", "int32", "int_list") for v in data.values()):
                op = {"op": "repeat", "of": of, "dirty": dirty}
            else:
                op = {"op": "mutate", "of": of, "fn": src["fn"], "data": data, "dirty": dirty}
        elif kind == "edit_config":
            # the caller edits its own list-of-dicts climatology in place (same list object, same length) and calls again
            cl = [j for j in calls if ops[j]["fn"] == "climatology_test" and not ops[j]["params"].get("__as_object__") and not ops[j]["params"].get("__form__") and ops[j]["params"].get("config")]
            if cl:
                of = rng.pick(cl)
                members = ops[of]["params"]["config"]
                k = rng.randrange(len(members))
                if rng.chance(0.5):
                    lo = rng.dyadic(-8, 4)
                    edit = {"how": "vspan", "k": k, "vspan": [lo, lo + rng.dyadic(0, 8)]}
                else:
                    fresh = wl.p_clim(rng)["config"]
                    edit = {"how": "member", "k": k, "member": fresh[rng.randrange(len(fresh))]}
                op = {"op": "edit_config", "of": of, "fn": "climatology_test", "edit": edit, "dirty": dirty}
            else:
                op = {"op": "repeat", "of": rng.pick(calls), "dirty": dirty}
        elif kind == "bad_add":
            cl = [j for j in calls if ops[j]["fn"] == "climatology_test" and ops[j]["params"].get("__as_object__")]
            if cl:
                op = {"op": "bad_add", "of": rng.pick(cl), "member": rng.pick(({"tspan": [1, 6], "vspan": [0, 1], "period": "fortnight"}, {"tspan": [1, 6, 7], "vspan": [0, 1], "period": "month"}, {"tspan": [1, 6], "vspan": [0], "period": "month"})), "dirty": dirty}
            else:
                op = {"op": "repeat", "of": rng.pick(calls), "dirty": dirty}
        else:
            of = rng.pick(calls)
            fn = ops[of]["fn"]
            data = perturb_data(rng, ops[of]["data"]) if rng.chance(0.5) else gen_data(rng, fn)
            if ops[of]["params"].get("dtype") == "datetime64[ns]" or data["inp" if "inp" in data else "lon"]["carrier"] == "dt64_nat":
                # parameter objects and data must stay compatible (datetime span <-> datetime data)
                op = {"op": "repeat", "of": of, "dirty": dirty}
            else:
                op = {"op": "same_params", "of": of, "fn": fn, "data": data, "dirty": dirty}
        ops.append(op)
    return {"format": 1, "property": PROP, "env": {"dirty": {"pattern": "flag", "byte": 4}, "ref_dirty": {"pattern": "flag", "byte": 9}}, "ops": ops}


# --------------------------------------------------------------------------
# argument construction and snapshots (run inside children)
# --------------------------------------------------------------------------
def build_series(spec):
    c = spec["carrier"]
    vals = spec["values"]
    if c == "list":
        return [None if v is None else float(v) for v in vals]
    if c == "tuple":
        return tuple(float("nan") if v is None else float(v) for v in vals)
    if c == "int_list":
        return [None if v is None else int(v) for v in vals] if any(v is None for v in vals) else [int(v) for v in vals]
    if c == "readonly":
        arr = np.array([np.nan if v is None else v for v in vals], dtype="float64")
        arr.setflags(write=False)
        return arr
    if c == "float32":
        return np.array([np.nan if v is None else v for v in vals], dtype="float32")
    if c in ("int64", "int32"):
        # total on whatever the generators and the shrinker leave in the spec: no marker, no overflow
        return np.array([0 if v is None or not abs(v) < 2**30 else int(v) for v in vals], dtype=c)
    if c == "list_nan":
        return [float("nan") if v is None else float(v) for v in vals]
    if c == "ndarray":
        return np.array([np.nan if v is None else v for v in vals], dtype="float64")
    if c == "masked":
        mask = np.array([v is None for v in vals], dtype=bool)
        data = np.array([spec.get("under", 0.0) if v is None else v for v in vals], dtype="float64")
        return np.ma.MaskedArray(data, mask=mask)
    if c == "masked_nan":
        # a masked array with a real mask array whose missing values are partly masked, partly plain NaN
        miss = [i for i, v in enumerate(vals) if v is None]
        mask = np.zeros(len(vals), dtype=bool)
        mask[miss[::2]] = True
        data = np.array([np.nan if v is None else v for v in vals], dtype="float64")
        data[mask] = spec.get("under", 0.0)
        return np.ma.MaskedArray(data, mask=mask)
    if c == "dt64":
        return np.array(vals, dtype="int64").astype("datetime64[s]").astype("datetime64[ns]")
    if c == "dt64_s":
        return np.array(vals, dtype="int64").astype("datetime64[s]")
    if c == "epoch_list":
        return [int(v) for v in vals]
    if c == "dt64_nat":
        out = np.array([0 if v is None else v for v in vals], dtype="int64").astype("datetime64[s]").astype("datetime64[ns]")
        out[np.array([v is None for v in vals], dtype=bool)] = np.datetime64("NaT")
        return out
    raise ValueError(c)


def build_params(fn, params):
    p = json.loads(json.dumps({k: v for k, v in params.items() if not k.startswith("__")}))
    if params.get("__form__"):
        from sim.pipeline import reform

        p = {k: reform(v, params["__form__"]) for k, v in p.items()}
    if fn == "climatology_test" and params.get("__tspan_forms__"):
        import datetime as _dt

        import pandas as _pd

        for m, forms in zip(p["config"], params["__tspan_forms__"]):
            if m.get("period") is None and all(isinstance(x, str) for x in m["tspan"]):
                out = []
                for text, form in zip(m["tspan"], forms):
                    ts = _pd.Timestamp(text)
                    out.append({"str": text, "datetime": ts.to_pydatetime(), "dt64": np.datetime64(text), "timestamp": ts, "date": _dt.date(ts.year, ts.month, ts.day)}[form])
                m["tspan"] = out
    if fn == "climatology_test" and params.get("__as_object__"):
        from ioos_qc.qartod import ClimatologyConfig

        c = ClimatologyConfig()
        for m in p["config"]:
            c.add(**m)
        p["config"] = c
    if "dtype" in p:
        p["dtype"] = np.dtype(p["dtype"])
    return p


def snap(obj):
    """Canonical, byte-level description of an argument (no ids)."""
    if isinstance(obj, np.ma.MaskedArray):
        return ["ma", str(obj.dtype), list(obj.shape), np.ma.getdata(obj).tobytes().hex(), np.ma.getmaskarray(obj).tobytes().hex()]
    if isinstance(obj, np.ndarray):
        return ["nd", str(obj.dtype), list(obj.shape), obj.tobytes().hex()]
    if isinstance(obj, (list, tuple)):
        return [type(obj).__name__, [snap(x) for x in obj]]
    if isinstance(obj, dict):
        return ["dict", [[k, snap(v)] for k, v in obj.items()]]
    if type(obj).__name__ == "ClimatologyConfig":
        return ["clim", [[snap(list(m.tspan)), snap(m.fspan and list(m.fspan)), snap(list(m.vspan)), snap(m.zspan and list(m.zspan)), m.period] for m in obj.members]]
    if isinstance(obj, float) and obj != obj:
        return "nan"
    return repr(obj)


def flags_out(res):
    m = np.ma.getmaskarray(res).ravel()
    d = np.asarray(np.ma.getdata(res)).ravel()
    out = []
    for i in range(d.size):
        v = d[i]
        if m[i]:
            out.append("M")
        elif v != v:
            out.append("nan")
        else:
            out.append(int(v) if float(v).is_integer() else float(v))
    return out


def call_once(fn, data_objs, param_objs):
    module = FUNCS[fn][0]
    func = getattr(import_module(f"ioos_qc.{module}"), fn)
    kwargs = dict(param_objs)
    kwargs.update(data_objs)
    before = {k: snap(v) for k, v in kwargs.items()}
    rec = {"exc": None, "out": None, "shape": None, "changed": []}
    try:
        res = func(**kwargs)
    except Exception as e:  # noqa: BLE001
        rec["exc"] = exc_signature(e)
        rec["exc_repr"] = repr(e)[:200]
        res = None
    after = {k: snap(v) for k, v in kwargs.items()}
    rec["changed"] = sorted(k for k in before if before[k] != after[k])
    if res is not None:
        rec["out"] = flags_out(res)
        rec["shape"] = list(np.shape(res))
        rec["dtype"] = str(getattr(res, "dtype", type(res).__name__))
    first = data_objs.get("inp", data_objs.get("lon"))
    rec["in_shape"] = list(np.shape(first))
    return rec, res


def run_history(scn):
    """Executed in one child: the whole history, objects shared as the ops say."""
    objs = {}
    outs = []
    recs = []
    for i, op in enumerate(scn["ops"]):
        seams.set_dirty(op.get("dirty") or scn["env"]["dirty"])
        if op["op"] == "call":
            d = {k: build_series(v) for k, v in op["data"].items()}
            p = build_params(op["fn"], op["params"])
            objs[i] = (op["fn"], d, p)
        elif op["op"] == "repeat":
            objs[i] = objs[op["of"]]
        elif op["op"] == "mutate":
            fn, d, p = objs[op["of"]]
            for k, spec in op["data"].items():
                new = build_series(spec)
                if isinstance(d[k], list):
                    d[k][:] = new
                elif isinstance(d[k], np.ma.MaskedArray):
                    d[k][:] = new  # data and mask
                else:
                    d[k][...] = new
            objs[i] = (fn, d, p)
        elif op["op"] == "edit_config":
            fn, d, p = objs[op["of"]]
            apply_edit(p["config"], op["edit"], build=True)
            objs[i] = (fn, d, p)
        elif op["op"] == "bad_add":
            fn, d, p = objs[op["of"]]
            try:
                p["config"].add(**op["member"])
                recs.append({"exc": None, "out": None, "shape": None, "changed": [], "bad_add": "accepted"})
            except Exception as e:  # noqa: BLE001 - the rejection is expected; what it leaves behind is what matters
                recs.append({"exc": None, "out": None, "shape": None, "changed": [], "bad_add": type(e).__name__})
            outs.append((None, None))
            objs[i] = (fn, d, p)
            continue
        else:  # same_params: new data, the parameter objects of an earlier call
            fn, _, p = objs[op["of"]]
            objs[i] = (fn, {k: build_series(v) for k, v in op["data"].items()}, p)
        fn, d, p = objs[i]
        rec, res = call_once(fn, d, p)
        recs.append(rec)
        outs.append((res, None if res is None else snap(res)))
    stale = [i for i, (res, s0) in enumerate(outs) if res is not None and snap(res) != s0]
    return {"recs": recs, "stale": stale}


def apply_edit(config, edit, build=False):
    """In-place edit of a list-of-dicts climatology: the list object and its length stay the same."""
    if edit["how"] == "vspan":
        config[edit["k"]]["vspan"] = list(edit["vspan"])
    else:
        config[edit["k"]] = json.loads(json.dumps(edit["member"]))


def data_root(scn, i):
    """The op that created the data objects op i works on."""
    op = scn["ops"][i]
    while op["op"] in ("repeat", "mutate", "bad_add", "edit_config"):
        i = op["of"]
        op = scn["ops"][i]
    return i


def param_root(scn, i):
    """The call that created the parameter objects op i works with."""
    op = scn["ops"][i]
    while op["op"] != "call":
        i = op["of"]
        op = scn["ops"][i]
    return i


def data_source(scn, i):
    """The op whose data spec describes the current content of op i's data objects:
    the latest in-place mutation of those objects up to i, else the op that built them."""
    dr = data_root(scn, i)
    src = dr
    for k in range(dr + 1, i + 1):
        if scn["ops"][k]["op"] == "mutate" and data_root(scn, k) == dr:
            src = k
    return src


def effective(scn, i):
    """The (fn, data spec, params spec) an op amounts to."""
    r = param_root(scn, i)
    pr = scn["ops"][r]
    params = pr["params"]
    edits = [scn["ops"][k]["edit"] for k in range(r + 1, i + 1) if scn["ops"][k]["op"] == "edit_config" and param_root(scn, k) == r]
    if edits:
        # the parameter object as it stands after the caller's in-place edits up to op i
        params = copy.deepcopy(params)
        for e in edits:
            apply_edit(params["config"], e)
        if any(e["how"] == "member" for e in edits):
            params.pop("__tspan_forms__", None)
    return pr["fn"], scn["ops"][data_source(scn, i)]["data"], params


def run_reference(scn, i):
    """Executed in its own pristine child: one call on freshly built arguments."""
    seams.set_dirty(scn["env"]["ref_dirty"])
    fn, data, params = effective(scn, i)
    rec, _ = call_once(fn, {k: build_series(v) for k, v in data.items()}, build_params(fn, params))
    return rec


# --------------------------------------------------------------------------
# forked children
# --------------------------------------------------------------------------
from sim.hermetic import in_child  # noqa: E402

HERMETIC = False  # this module forks per history and per reference call itself; the worker never calls a QC function


_WARM = {"done": False}


def warm_up():
    """pandas compiles its numba rolling kernel once per process (~2 s); do it in the
    zygote with a plain pandas call (not a QC call) so forked children inherit it."""
    if _WARM["done"]:
        return
    _WARM["done"] = True
    try:
        import pandas as pd

        s = pd.Series([1.0, 2.0, 3.0], index=pd.date_range("2020-01-01", periods=3, freq="h"))
        s.rolling("2h").apply(np.ptp, raw=True, engine="numba")
    except Exception:  # noqa: BLE001
        pass


FLAGS = {1, 2, 3, 4, 9}


def execute(scn):
    from sim import engine

    engine.prepare_process()
    warm_up()
    V = []
    stats = {"probes": {}, "faults": {}, "calls": 0, "forks": 0}

    def bump(k, c=1):
        stats["probes"][k] = stats["probes"].get(k, 0) + c

    hist = in_child(run_history, scn)
    stats["forks"] += 1
    if "child_error" in hist:
        return {"harness_error": f"history child: {hist['child_error']} {hist.get('trace', '')}", "violations": [], "stats": stats}
    refs = {}
    events = []
    for i, op in enumerate(scn["ops"]):
        bump(f"op_{op['op']}")
        if op["op"] == "bad_add":
            # a rejected ClimatologyConfig.add(): nothing is called; what it leaves on the object shows in later ops
            events.append(("bad_add", hist["recs"][i].get("bad_add")))
            stats["faults"]["rejected-add"] = stats["faults"].get("rejected-add", 0) + 1
            continue
        stats["calls"] += 1
        fn, data, params = effective(scn, i)
        rec = hist["recs"][i]
        comp = f"{FUNCS[fn][0]}.{fn}"
        first = data.get("inp", data.get("lon"))
        n = len(first["values"])
        events.append((op["op"], fn, n))
        if n <= 2:
            bump(f"n_le_2")
        key = digest([fn, data, params])
        if key not in refs:
            refs[key] = in_child(run_reference, scn, i)
            stats["forks"] += 1
            if "child_error" in refs[key]:
                return {"harness_error": f"reference child: {refs[key]['child_error']} {refs[key].get('trace', '')}", "violations": [], "stats": stats}
        ref = refs[key]
        # a. total
        if rec["exc"] is not None:
            V.append(violation(PROP, "a", comp, rec["exc"], f"op {i} ({op['op']}) n={n} params={params}: {rec.get('exc_repr')}"))
        else:
            # b. one flag per element, input's shape
            if rec["shape"] != rec["in_shape"] or len(rec["out"]) != n:
                V.append(violation(PROP, "b", comp, "shape", f"op {i}: output shape {rec['shape']} for input shape {rec['in_shape']} (n={n})"))
            # c. alphabet, nothing hidden behind a mask
            if any(x == "M" for x in rec["out"]):
                V.append(violation(PROP, "c", comp, "masked-flag", f"op {i}: {rec['out']}"))
            elif any(x not in FLAGS for x in rec["out"]):
                V.append(violation(PROP, "c", comp, "not-a-flag", f"op {i}: {rec['out']}"))
        # d. arguments untouched
        if rec["changed"]:
            V.append(violation(PROP, "d", comp, "argument-modified:" + ",".join(rec["changed"]), f"op {i} ({op['op']})"))
        # e. same flags as the pristine reference execution
        if rec["exc"] is None and ref["exc"] is None:
            if rec["out"] != ref["out"]:
                V.append(violation(PROP, "e", comp, f"differs-from-pristine-call:{op['op']}", f"op {i}: history {rec['out']} pristine {ref['out']}"))
            else:
                bump("matches_pristine")
        elif (rec["exc"] is None) != (ref["exc"] is None):
            V.append(violation(PROP, "e", comp, f"raises-only-{'in-history' if rec['exc'] else 'when-pristine'}:{op['op']}", f"op {i}: history {rec['exc']} pristine {ref['exc']}"))
        if op["op"] == "repeat":
            # the previous call on the very same objects holding the very same values
            prev = [
                j
                for j in range(i)
                if scn["ops"][j]["op"] != "bad_add" and data_root(scn, j) == data_root(scn, i) and param_root(scn, j) == param_root(scn, i) and data_source(scn, j) == data_source(scn, i) and digest(effective(scn, j)[2]) == digest(effective(scn, i)[2])
            ]
            if prev:
                orig = hist["recs"][prev[-1]]
                if orig["out"] != rec["out"] or orig["exc"] != rec["exc"]:
                    V.append(violation(PROP, "e", comp, "repeat-differs", f"op {i} repeats op {prev[-1]}: {orig['out']} then {rec['out']}"))
                else:
                    bump("repeat_same")
    for i in hist["stale"]:
        fn = effective(scn, i)[0]
        V.append(violation(PROP, "e", f"{FUNCS[fn][0]}.{fn}", "earlier-output-changed-later", f"output of op {i} was modified by a later call"))
    return {
        "violations": V,
        "stats": stats,
        "events": len(events),
        "event_digest": digest(events),
        "schedule_digest": digest([(o["op"], o.get("fn"), o.get("of")) for o in scn["ops"]]),
        "end_state": digest([r.get("out") for r in hist["recs"]]),
        "nontrivial": len(scn["ops"]) > 1,
    }


def candidates(scn):
    ops = scn["ops"]
    n = len(ops)

    def drop(idx):
        """Remove op idx, re-pointing / materialising ops that referred to it."""
        new, mapping = [], {}
        for j, op in enumerate(ops):
            if j == idx:
                continue
            op = copy.deepcopy(op)
            if op["op"] in ("repeat", "same_params", "mutate", "bad_add", "edit_config") and op["of"] == idx:
                fn, data, params = effective(scn, j)
                op = {"op": "call", "fn": fn, "data": copy.deepcopy(data), "params": copy.deepcopy(params), "dirty": op.get("dirty")}
            mapping[j] = len(new)
            new.append(op)
        for op in new:
            if op["op"] in ("repeat", "same_params", "mutate", "bad_add", "edit_config"):
                op["of"] = mapping[op["of"]]
        c = copy.deepcopy(scn)
        c["ops"] = new
        return c

    if n > 1:
        for i in range(n - 1, -1, -1):
            yield drop(i)
    for i, op in enumerate(ops):
        if op["op"] in ("call", "same_params") and not any(o.get("of") == i and o["op"] == "mutate" for o in ops):
            data = op["data"]
            m = len(next(iter(data.values()))["values"])
            if m > 0:
                for cut in ([m // 2] if m > 3 else []) + [m - 1]:
                    c = copy.deepcopy(scn)
                    for k in c["ops"][i]["data"]:
                        c["ops"][i]["data"][k]["values"] = c["ops"][i]["data"][k]["values"][:cut]
                    yield c
            for k, spec in data.items():
                if spec["carrier"] in ("list", "masked", "masked_nan", "tuple", "readonly", "float32", "int_list", "int64", "int32"):
                    c = copy.deepcopy(scn)
                    c["ops"][i]["data"][k]["carrier"] = "ndarray"
                    yield c
        if op.get("dirty", {}).get("pattern", "off") != "off":
            c = copy.deepcopy(scn)
            c["ops"][i]["dirty"] = {"pattern": "off", "byte": 0}
            yield c


BUDGET = {
    "quick": {"runs": 3200, "seconds": 50, "selfcheck": 2, "crosscheck": 8},
    "thorough": {"runs": 120000, "seconds": 1500, "selfcheck": 10, "crosscheck": 30},
}

EVIDENCE = {
    "level": "exploration",
    "rule": (
        "Seeded call histories of 1-14 (thorough: 30) operations over a swarm-style random subset of the eleven QC test functions: "
        "fresh calls (n = 0,1,2,3,...,24; finite dyadic values, magnitudes from 1e-300 to 1e300, readings a hair away from a bound / NaN / "
        "None / masked elements; list, tuple, int list, int64, int32, float64, float32, read-only and masked-array carriers, masked arrays holding plain "
        "NaN; datetime64[ns|s] or epoch-second times; positions with stationary stretches; admissible parameter sets as lists / tuples / "
        "numpy scalars incl. both spike methods, both attenuated check types with/without test_period and min_obs xor min_period, "
        "climatology members of every period kind with date spans in mixed spellings, given as dict lists or as one ClimatologyConfig "
        "object), repeats on the same argument objects, new or near-duplicate data with the parameter objects of an earlier call, in-place "
        "mutation of the caller's own buffers between two calls, in-place edits of a list-of-dicts climatology between two calls, a rejected ClimatologyConfig.add between calls. The history runs in one "
        "forked child with the dirty allocator re-patterned per call; every call's reference runs in its own child forked from the pristine "
        "worker under another pattern. Non-trivial: history of at least two calls. Distinct: distinct (digest of all outputs, digest of "
        "the op/function sequence). "
    ),
    "real": ["ioos_qc.qartod (8 tests incl. ClimatologyConfig)", "ioos_qc.argo (2 tests)", "ioos_qc.axds.valid_range_test", "ioos_qc.utils (mapdates, great_circle_distance)", "numpy, pandas (rolling, numba engine), geographiclib"],
    "stub": ["dirty allocator wrappers", "fork-per-call pristine reference processes", "history driver"],
    "assumptions": [
        "dtype of the returned flags is not asserted (the property names values, shape and mask only); empty outputs are vacuously in the alphabet",
        "dask carriers are excluded: np.array(dask_array) starts dask's own thread pool whose interleaving the simulator would not decide",
        "masked elements only for tests that document missing-data handling; pressure_increasing_test gets NaN only; integer-typed columns carry no missing marker at all",
        "global state of dependencies (warning filters, errstate) is not asserted",
        "the pandas numba rolling kernel is compiled once in the worker by a plain pandas call before any fork",
    ],
}
