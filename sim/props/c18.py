"""C18 - a test that cannot run drops out without disturbing the rest of the run.

Fault sequences (six kinds x position x front end) injected into the config /
data source / QC-function namespace; oracle is *differential*: every entry of
the faulty run must yield exactly what it yields when configured alone on the
same front end (DESIGN.md section 3, C18).
"""
import copy

import numpy as np

from sim import pipeline as pl
from sim import replicas as rp
from sim import seams, workload as wl
from sim.util import canon, digest, exc_signature, violation

PROP = "C18"
STREAM_FES = ("pandas", "numpy", "netcdf_obj", "netcdf_path", "xarray_obj", "xarray_path")


# --------------------------------------------------------------------------
# generation
# --------------------------------------------------------------------------
def generate(rng, tier="quick"):
    tbl = wl.gen_table(rng, max_n=24 if tier == "quick" else 40, index_kinds=("range", "range", "offset", "datetime", "str"), no_time_p=0.08, unsorted_p=0.05)
    fault_free = rng.chance(0.15)
    kinds = () if fault_free else tuple(rng.subset(wl.FAULT_KINDS, 0.5, at_least=1))
    cfg = wl.gen_config(rng, tbl, max_ctx=3, max_tests=3, fault_kinds=kinds, max_faults=4)
    pool = tuple(f for f in STREAM_FES if not (tbl.get("unsorted") and f.startswith("xarray")))
    if tbl.get("no_files"):
        pool = tuple(f for f in pool if not f.endswith("_path"))
    fes = rng.subset(pool, 0.45, at_least=1)
    if not tbl.get("no_files") and not tbl.get("unsorted") and not tbl.get("no_time") and tbl.get("xr_time", "coord") == "coord" and rng.chance(0.12):
        # an xarray dataset whose variables do not all share their dimensions: "w" lives on a dimension of
        # its own, so the stream has no time / depth / position to supply for it (fault kind F4, by construction)
        n = len(tbl["times"])
        m = n + rng.randint(1, 3) if n < 3 or rng.chance(0.5) else n - rng.randint(1, 2)
        tbl["side"] = {"name": "w", "values": wl.gen_values(rng, m)}
        fes = rng.subset(("xarray_obj", "xarray_path"), 0.6, at_least=1)
        for c in cfg["contexts"]:
            if rng.chance(0.7):
                cands = [
                    ("qartod", "gross_range_test", wl.p_gross_range(rng), "healthy"),
                    ("qartod", "spike_test", wl.p_spike(rng), "healthy"),
                    ("argo", "sim_probe", wl.p_probe(rng), "healthy"),
                    ("qartod", "flat_line_test", wl.p_flat(rng), "F4"),
                    ("qartod", "attenuated_signal_test", {"suspect_threshold": 2.0, "fail_threshold": 1.0}, "F4"),
                    ("qartod", "rate_of_change_test", wl.p_roc(rng), "F4"),
                    ("qartod", "climatology_test", {"config": [{"tspan": ["2019-01-01", "2022-01-01"], "vspan": [-8, 8]}]}, "F4"),
                ]
                for mod, test, params, role in rng.sample(cands, rng.randint(1, 3)):
                    c["entries"].insert(rng.randint(0, len(c["entries"])), {"sid": "w", "module": mod, "test": test, "params": params, "role": role})
    if len(tbl["cols"]) == 1 and rng.chance(0.5):
        fes.append("qcconfig")
    scn = {
        "format": 1,
        "property": PROP,
        "env": wl.gen_env(rng),
        "table": tbl,
        "config": cfg,
        "frontends": fes,
        "schedule": wl.gen_schedule(rng, len(fes)),
        "abandon": [],
        "reruns": [],
        "share_config": rng.chance(0.3),
    }
    ghosts = sorted({e["sid"] for c in cfg["contexts"] for e in c["entries"] if e["role"] == "F5" and "." not in e["sid"] and not e["sid"].startswith("obs")})
    growable = [f for f in fes if f in ("pandas", "numpy", "netcdf_obj", "xarray_obj")]
    if ghosts and growable and not tbl.get("no_time") and not tbl.get("side") and rng.chance(0.3):
        # the stream that was absent in the first run exists in the second one
        scn["grow"] = {"sid": rng.pick(ghosts), "values": wl.gen_values(rng, len(tbl["times"])), "on": rng.subset(growable, 0.7, at_least=1)}
        scn["reruns"] = list(scn["grow"]["on"])
    for i, fe in enumerate(fes):
        if scn.get("grow") and fe in scn["grow"]["on"]:
            continue
        if fe != "qcconfig" and rng.chance(0.2):
            scn["abandon"].append({"task": fe, "after_yields": rng.randint(1, 3), "restart": True})
        elif fe != "qcconfig" and rng.chance(0.15):
            scn["reruns"].append(fe)
            if rng.chance(0.3):
                scn["reruns"].append(fe)  # a third run on the same objects
    return scn


# ---- exhaustive single-fault tier ------------------------------------------
def _base_family():
    """A fixed family of base tables/configs whose healthy tests include
    neighbour- and time-dependent ones."""
    t0 = 1577836800
    times = [t0 + 3600 * i for i in range(8)]
    tbl = {
        "times": times,
        "cols": {"v1": [1, 2, 8, 2, 2, 2, None, 3], "v2": [0.5, 0.5, 0.5, 4, 1, 0, 7, 7]},
        "z": [0, 1, 2, 3, 4, 5, 6, 7],
        "lat": None,
        "lon": None,
        "index": {"kind": "range"},
    }
    h = {
        "spike": {"sid": "v1", "module": "qartod", "test": "spike_test", "params": {"suspect_threshold": 1, "fail_threshold": 3}, "role": "healthy"},
        "roc": {"sid": "v1", "module": "qartod", "test": "rate_of_change_test", "params": {"threshold": 0.0005}, "role": "healthy"},
        "flat": {"sid": "v2", "module": "qartod", "test": "flat_line_test", "params": {"suspect_threshold": 3600, "fail_threshold": 7200, "tolerance": 0.25}, "role": "healthy"},
        "gross": {"sid": "v2", "module": "qartod", "test": "gross_range_test", "params": {"fail_span": [0, 6], "suspect_span": [0.5, 4]}, "role": "healthy"},
        "probe": {"sid": "v1", "module": "argo", "test": "sim_probe", "params": {"tag": 1}, "role": "healthy"},
        "dens": {"sid": "v2", "module": "qartod", "test": "density_inversion_test", "params": {"suspect_threshold": 0.1, "fail_threshold": -1}, "role": "healthy"},
    }
    bases = [
        ("one-context", [{"window": None, "entries": [h["spike"], h["roc"], h["flat"], h["gross"]]}]),
        (
            "two-contexts",
            [
                {"window": {"starting": times[0], "ending": times[4]}, "entries": [h["spike"], h["probe"], h["gross"]]},
                {"window": {"starting": times[4], "ending": times[7] + 3600}, "entries": [h["roc"], h["flat"], h["dens"]]},
            ],
        ),
    ]
    return tbl, bases


def _single_faults(tbl):
    class _R:  # deterministic stand-in for rng.pick: enumerate every option
        pass

    faults = []
    faults.append({"module": "nosuchpkg", "test": "gross_range_test", "params": {"fail_span": [0, 1]}, "role": "F1"})
    faults.append({"module": "qartod", "test": "no_such_test", "params": {"threshold": 1}, "role": "F2"})
    faults.append({"module": "axds", "test": "gross_range_test", "params": {"threshold": 1}, "role": "F2"})  # a real name, in a package that lacks it
    for module, test, params in (
        ("qartod", "gross_range_test", {"fail_span": [0, 1], "suspect_span": [-1, 2]}),
        ("qartod", "spike_test", {"suspect_threshold": 1, "method": "median"}),
        ("qartod", "aggregate", {}),
        ("qartod", "attenuated_signal_test", {"suspect_threshold": 1, "fail_threshold": 0, "check_type": "iqr"}),
        ("axds", "valid_range_test", {}),
        ("qartod", "climatology_test", {"config": [{"tspan": ["2019-01-01", "2022-01-01"], "vspan": [-8, 8]}, {"tspan": [1, 6], "vspan": [0, 1], "period": "fortnight"}]}),
    ):
        faults.append({"module": module, "test": test, "params": params, "role": "F3"})
    faults.append({"module": "qartod", "test": "location_test", "params": {}, "role": "F4"})
    faults.append({"module": "argo", "test": "speed_test", "params": {"suspect_threshold": 1, "fail_threshold": 2}, "role": "F4"})
    faults.append({"sid": "ghost", "module": "qartod", "test": "spike_test", "params": {"suspect_threshold": 1}, "role": "F5"})
    for exc in sorted(seams.EXC_CLASSES):
        for scribble in (False, True):
            faults.append(
                {"module": "axds", "test": "sim_fault", "params": {"mode": "raise", "exc": exc, "scribble": scribble, "tag": 2}, "role": "F6"},
            )
    return faults


def _case(name, tbl, ctxs, fe, rerun=False):
    return {
        "format": 1,
        "property": PROP,
        "case": name,
        "env": {"dirty": {"pattern": "flag", "byte": 4}},
        "table": tbl,
        "config": {"contexts": ctxs, "window_form": "iso", "carrier": "dict", "layout": "contexts"},
        "frontends": [fe],
        "schedule": [0],
        "abandon": [],
        "reruns": [fe] if rerun else [],   # run twice on the same stream and Config objects
        "share_config": False,
    }


def enumerate_cases():
    """Every single fault of every kind at every position of every base config,
    on every stream front end - a finite space, enumerated completely - plus a
    whole context made only of absent streams at every context position."""
    tbl, bases = _base_family()
    cases = []
    t_end = tbl["times"][-1]
    for bname, contexts in bases:
        for nghost in (1, 2):
            dead = {
                "window": {"starting": t_end + 7200, "ending": t_end + 10800},
                "entries": [
                    {"sid": g, "module": "qartod", "test": "spike_test", "params": {"suspect_threshold": 1}, "role": "F5"}
                    for g in ("ghost", "v9")[:nghost]
                ],
                "dead": True,
            }
            for pos in range(len(contexts) + 1):
                ctxs = copy.deepcopy(contexts)
                ctxs.insert(pos, copy.deepcopy(dead))
                for fe in STREAM_FES:
                    cases.append(_case(f"{bname}/dead-context-{nghost}/ctxpos{pos}/{fe}", tbl, ctxs, fe))
    # consumer "crash" at every yield point: abandon the generator after k yields, restart it on the
    # same stream and Config objects, for a scribbling fault, a rejected-parameter fault and no fault
    crash_faults = [
        None,
        {"sid": "v1", "module": "axds", "test": "sim_fault", "params": {"mode": "raise", "exc": "SimFault", "scribble": True, "tag": 2}, "role": "F6"},
        {"sid": "v2", "module": "qartod", "test": "spike_test", "params": {"suspect_threshold": 1, "method": "median"}, "role": "F3"},
    ]
    for bname, contexts in bases:
        for fi, f in enumerate(crash_faults):
            ctxs = copy.deepcopy(contexts)
            if f is not None:
                ctxs[0]["entries"].insert(1, copy.deepcopy(f))
            nyield = sum(len(c["entries"]) for c in ctxs)
            for k in range(1, nyield + 1):
                for fe in STREAM_FES:
                    c = _case(f"{bname}/abandon-after-{k}/fault{fi}/{fe}", tbl, ctxs, fe)
                    c["abandon"] = [{"task": fe, "after_yields": k, "restart": True}]
                    c["reruns"] = []
                    cases.append(c)
    for bname, contexts in bases:
        for f in _single_faults(tbl):
            for ci, c in enumerate(contexts):
                sids = ["v1", "v2"] if "sid" not in f else [f["sid"]]
                for sid in sids:
                    for pos in range(len(c["entries"]) + 1):
                        e = dict(f, sid=sid)
                        if any((x["sid"], x["module"], x["test"]) == (e["sid"], e["module"], e["test"]) for x in c["entries"]):
                            continue
                        ctxs = copy.deepcopy(contexts)
                        ctxs[ci]["entries"].insert(pos, e)
                        for fe in STREAM_FES:
                            # faults that go through the test function (F3 rejected parameters, F6 raises) are also
                            # re-run on the same objects: what the failure leaves behind must not matter either
                            cases.append(_case(f"{bname}/{f['role']}/{e['module']}.{e['test']}/ctx{ci}/{sid}/pos{pos}/{fe}", tbl, ctxs, fe, rerun=f["role"] == "F3" or (f["role"] == "F6" and f["params"]["exc"] in ("ValueError", "SimFault"))))
    return cases


# --------------------------------------------------------------------------
# execution + oracle
# --------------------------------------------------------------------------
def solo_config(cfg, ci, entry):
    return {
        "contexts": [{"window": copy.deepcopy(cfg["contexts"][ci].get("window")), "entries": [copy.deepcopy(entry)]}],
        "window_form": cfg.get("window_form", "iso"),
        "carrier": "dict",
        "layout": "contexts",
    }


SHARED_CACHE = {}      # solo-run summaries; lives in the *worker*, inherited by every scenario child at fork time
_NEW_ENTRIES = {}      # what this scenario child adds (handed back to the worker)


def _solo_job(fe, tbl, cfg, dirty):
    """Executed in its own pristine process: one entry alone on one front end -> JSON summary."""
    seams.set_dirty(dirty)
    seams.register_sim_functions()
    try:
        if fe == "qcconfig":
            sid = cfg["contexts"][0]["entries"][0]["sid"]
            return {"qcdict": rp.dict_results_json(pl.run_qcconfig(cfg, tbl, sid))}
        stream, closer = pl.make_stream(fe, tbl)
        try:
            ys = list(stream.run(pl.build_config(cfg)))
        finally:
            if closer:
                closer()
        return {
            "yields": [
                {
                    "res": [[x.package, x.test, pl.flags_json(x.results)] for x in rp.results_of(y)],
                    "subset": np.asarray(y.subset_indexes).astype(int).ravel().tolist(),
                }
                for y in ys
            ],
        }
    except Exception as e:  # noqa: BLE001
        return {"crash": exc_signature(e)}


def run_solo(fe, tbl, cfg, dirty, cacheable):
    """'The result it yields when it is configured alone': the entry run alone on the same front end
    in a process forked from this one *before* the faulty run has executed anything, so that nothing
    the faulty run leaves behind can reach it (and vice versa).  Summaries of the enumerated family
    (same table, same few healthy entries, thousands of cases) are kept in the worker."""
    from sim.hermetic import in_child

    key = canon([fe, tbl, cfg, dirty])
    if key in SHARED_CACHE:
        return SHARED_CACHE[key]
    if key in _NEW_ENTRIES:
        return _NEW_ENTRIES[key]
    out = in_child(_solo_job, fe, tbl, cfg, dirty)
    if cacheable and "child_error" not in out:
        _NEW_ENTRIES[key] = out
    return out


def execute(scn):
    seams.set_dirty(scn["env"].get("dirty"))
    seams.register_sim_functions()
    del seams.PROBE_LOG[:]
    tbl, cfg = scn["table"], scn["config"]
    times = pl.row_times(tbl)
    arrays = pl.table_arrays(tbl)
    V = []
    stats = {"faults": {}, "probes": {}, "solo_runs": 0, "compared": 0}

    def bump(d, k, n=1):
        stats[d][k] = stats[d].get(k, 0) + n

    # expected calls; 'fails' is by construction of the fault entry
    exp = pl.expected_calls(cfg, pl.stream_id_universe(tbl))
    for e in exp:
        e["window"] = cfg["contexts"][e["ctx"]].get("window")
        e["fails"] = e["entry"]["role"] not in ("healthy", "F6d")
    grow = scn.get("grow")
    exp_g, tbl_g = None, None
    if grow:
        import copy as _copy

        tbl_g = _copy.deepcopy(tbl)
        tbl_g["cols"][grow["sid"]] = list(grow["values"])
        exp_g = pl.expected_calls(cfg, pl.stream_id_universe(tbl_g))
        for e in exp_g:
            e["window"] = cfg["contexts"][e["ctx"]].get("window")
            # entries on the stream that has appeared are ordinary entries now
            e["fails"] = e["entry"]["role"] not in ("healthy", "F6d") and not (e["entry"]["role"] == "F5" and e["entry"]["sid"] == grow["sid"])
        bump("probes", "source_grows_between_runs")
    # reference executions first, each in its own pristine process: every entry that may run, alone
    _NEW_ENTRIES.clear()
    solos = {}
    solos_g = {}
    for fe in (grow["on"] if grow else []):
        if fe not in scn["frontends"]:
            continue
        for ei, e in enumerate(exp_g):
            if e["fails"]:
                continue
            out = run_solo(fe, tbl_g, solo_config(cfg, e["ctx"], e["entry"]), scn["env"].get("dirty"), False)
            if "child_error" in out:
                return {"harness_error": f"solo child: {out['child_error']} {out.get('trace', '')}", "violations": [], "stats": stats}
            solos_g[(fe, ei)] = out
            stats["solo_runs"] += 1
    for fe in scn["frontends"]:
        for ei, e in enumerate(exp):
            if e["fails"]:
                continue
            if fe == "qcconfig" and e["entry"]["sid"] != (scn.get("qc_sid") or next(iter(tbl["cols"]))):
                continue
            out = run_solo(fe, tbl, solo_config(cfg, e["ctx"], e["entry"]), scn["env"].get("dirty"), bool(scn.get("case")))
            if "child_error" in out:
                return {"harness_error": f"solo child: {out['child_error']} {out.get('trace', '')}", "violations": [], "stats": stats}
            solos[(fe, ei)] = out
            stats["solo_runs"] += 1

    shared = None
    if scn.get("share_config"):
        try:
            shared = pl.build_config(cfg)
        except Exception as e:  # noqa: BLE001
            V.append(violation(PROP, "a", "config", exc_signature(e), "Config(...) raised"))
            return finish(scn, V, stats, None)
    reps = rp.build_replicas(scn, shared)
    sch = rp.run_replicas(scn, reps)
    if sch.timeout:
        return {"harness_error": "event cap reached", "violations": [], "stats": stats}
    for c in cfg["contexts"]:
        for e in c["entries"]:
            if e["role"] != "healthy":
                bump("faults", "F6-data-dependent" if e["role"] == "F6d" else e["role"])
                if e["role"] == "F6" and e["params"].get("scribble"):
                    bump("faults", "F6-scribble")
        if c.get("dead"):
            bump("faults", "F5-whole-context")

    if tbl.get("no_time"):
        bump("probes", "source_without_time_axis")
    if tbl.get("side"):
        bump("probes", "variable_on_its_own_dimension")
    end_state = {}
    for r in reps:
        fe = r.frontend
        if r.setup_error is not None:
            V.append(violation(PROP, "a", fe, r.setup_error[1], "building stream/config raised"))
            continue
        t = r.task
        if t.state == "crashed":
            V.append(violation(PROP, "a", fe, t.crash[1], f"run did not complete: {t.crash[0]!r}"))
            continue
        ys = rp.final_yields(t)
        if ys is None:
            continue  # abandoned for good: nothing promised
        grown = getattr(r, "grown", False)
        exp_r, solos_r = (exp_g, solos_g) if grown else (exp, solos)
        # liveness: one step per expected call + the final StopIteration
        if fe != "qcconfig" and t.steps > len(exp_r) + 1:
            V.append(violation(PROP, "a", fe, "step-bound", f"{t.steps} steps for {len(exp_r)} calls"))
        # earlier incarnations must be prefixes of the final one (restart / rerun)
        final_desc = [rp.describe_item(i) for i, _ in ys]
        for kind, part in t.history[:-1]:
            if grown:
                break  # the earlier run was over the smaller source
            pd_ = [rp.describe_item(i) for i, _ in part]
            if pd_ != final_desc[: len(pd_)]:
                V.append(violation(PROP, "c", fe, "restart-differs", f"{kind} incarnation differs from final run"))
                break
            bump("probes", f"{kind}_then_rerun_same")
        if fe == "qcconfig":
            check_qcconfig(scn, r, ys, exp, solos, V, stats, bump)
            end_state[r.name] = final_desc
            continue
        pairs, lonely, free = rp.match_yields(ys, exp_r, arrays, times)
        for yi in lonely:
            item = ys[yi][0]
            V.append(violation(PROP, "b", fe, "unexpected-yield", f"yield for {item.stream_id} matches no runnable entry"))
        for ei in free:
            e = exp_r[ei]["entry"]
            V.append(
                violation(PROP, "c", fe, "missing-yield", f"no yield for ctx{exp_r[ei]['ctx']} {e['sid']}/{e['module']}.{e['test']} role={e['role']}"),
            )
        solo_keys = {}
        for yi, ei in pairs:
            item = ys[yi][0]
            ex = exp_r[ei]
            ent = ex["entry"]
            label = f"ctx{ex['ctx']} {ent['sid']}/{ent['module']}.{ent['test']}"
            res = rp.results_of(item)
            if ex["fails"]:
                if res:
                    V.append(violation(PROP, "b", fe, f"result-from-{ent['role']}", f"{label} produced a result"))
                if ent["role"] == "F6":
                    bump("probes", "F6_fired")
                continue
            solo = solos_r.get((fe, ei))
            if solo is None or "crash" in solo:
                # alone it cannot even run: nothing to compare against (other properties own this)
                bump("probes", "solo_crashed")
                continue
            if len(solo["yields"]) != 1:
                bump("probes", "solo_not_single")
                continue
            sy = solo["yields"][0]
            stats["compared"] += 1
            a = [[x.package, x.test, pl.flags_json(x.results)] for x in res]
            b = sy["res"]
            if a != b:
                sig = "healthy-lost" if not a and b else ("healthy-gained" if a and not b else "healthy-differs")
                V.append(violation(PROP, "c", fe, sig, f"{label}: in run {a} alone {b}"))
            elif np.asarray(item.subset_indexes).astype(int).ravel().tolist() != sy["subset"]:
                V.append(violation(PROP, "c", fe, "subset-differs", f"{label}: rows differ from solo run"))
            if not b:
                bump("probes", "natural_failure_consistent")
            if res and not rp.readable_again(item):
                V.append(violation(PROP, "c", fe, "results-readable-only-once", f"{label}: a second reading of the context's results gives nothing"))
            solo_keys.setdefault((ent["sid"], ent["module"], ent["test"]), []).append((ex, sy))
        # collection level
        check_collected(scn, r, ys, solo_keys, times, V, stats, bump)
        end_state[r.name] = final_desc
    return finish(scn, V, stats, sch, end_state)


def check_collected(scn, r, ys, solo_keys, times, V, stats, bump):
    from ioos_qc.results import collect_results

    fe = r.frontend
    items = [i for i, _ in ys]
    for how in ("list", "dict"):
        try:
            col = collect_results(iter(items), how=how)
        except Exception as e:  # noqa: BLE001
            V.append(violation(PROP, "a", f"{fe}/collect_{how}", exc_signature(e), "collecting the run raised"))
            continue
        if how == "list":
            got = {(c.stream_id, c.package, c.test): c.results for c in col}
        else:
            got = {(s, m, t): col[s][m][t] for s in col for m in col[s] for t in col[s][m]}
        want_keys = {k for k, lst in solo_keys.items() if any(sy["res"] for _, sy in lst)}
        for k in sorted(set(got) - want_keys):
            V.append(violation(PROP, "b", f"{fe}/collect_{how}", "result-for-failed-test", f"{k} collected although it never ran alone"))
        for k in sorted(want_keys - set(got)):
            V.append(violation(PROP, "c", f"{fe}/collect_{how}", "healthy-lost", f"{k} missing from collected results"))
        for k in sorted(want_keys & set(got)):
            lst = solo_keys[k]
            cover = np.zeros(len(times), dtype=int)
            ok = True
            for ex, sy in lst:
                if len(sy["subset"]) != len(times):
                    ok = False
                    break
                cover += np.asarray(sy["subset"], dtype=int)
            if not ok:
                continue
            arr = got[k]
            if np.shape(arr) != (len(times),):
                V.append(violation(PROP, "c", f"{fe}/collect_{how}", "shape", f"{k}: {np.shape(arr)}"))
                continue
            fj = pl.flags_json(arr)
            for ex, sy in lst:
                if not sy["res"]:
                    continue
                sub = np.asarray(sy["subset"], dtype=bool)
                rows = np.flatnonzero(sub & (cover == 1))
                sj = sy["res"][0][2]
                pos = {int(rw): j for j, rw in enumerate(np.flatnonzero(sub))}
                bad = [int(rw) for rw in rows if pos[int(rw)] >= len(sj) or fj[int(rw)] != sj[pos[int(rw)]]]
                if bad:
                    V.append(violation(PROP, "c", f"{fe}/collect_{how}", "healthy-differs", f"{k} rows {bad[:5]} differ from solo run"))
                    break


def check_qcconfig(scn, r, ys, exp, solos, V, stats, bump):
    tbl = scn["table"]
    times = pl.row_times(tbl)
    got = ys[0][0][1]
    sid = scn.get("qc_sid") or next(iter(tbl["cols"]))
    gotj = rp.dict_results_json(got)
    per_key = {}
    for ei, ex in enumerate(exp):
        ent = ex["entry"]
        if ent["sid"] != sid:
            continue
        if ex["fails"]:
            per_key.setdefault((ent["module"], ent["test"]), [])
            continue
        solo = solos.get(("qcconfig", ei))
        if solo is None or "crash" in solo:
            bump("probes", "solo_crashed")
            per_key.setdefault((ent["module"], ent["test"]), []).append(None)
            continue
        per_key.setdefault((ent["module"], ent["test"]), []).append((ex, solo["qcdict"].get(ent["module"], {}).get(ent["test"])))
    for (m, t), lst in sorted(per_key.items()):
        if any(x is None for x in lst):
            continue
        real = [(ex, fl) for ex, fl in lst if fl is not None]
        have = gotj.get(m, {}).get(t)
        if not real:
            if have is not None:
                V.append(violation(PROP, "b", "qcconfig", "result-for-failed-test", f"{m}.{t} present"))
            continue
        if have is None:
            V.append(violation(PROP, "c", "qcconfig", "healthy-lost", f"{m}.{t} missing"))
            continue
        cover = np.zeros(len(times), dtype=int)
        masks = []
        for ex, fl in real:
            mk = pl.model_rows(ex["window"], times)
            masks.append(mk)
            cover += mk.astype(int)
        stats["compared"] += 1
        for (ex, fl), mk in zip(real, masks):
            rows = np.flatnonzero(mk & (cover == 1))
            bad = [int(i) for i in rows if len(have) != len(fl) or have[int(i)] != fl[int(i)]]
            if bad:
                V.append(violation(PROP, "c", "qcconfig", "healthy-differs", f"{m}.{t} rows {bad[:5]} differ from solo run"))
                break


def finish(scn, V, stats, sch, end_state=None):
    fired = [p for p in seams.PROBE_LOG if p.get("fn") == "sim_fault" and p.get("fired")]
    stats["probes"]["sim_fault_fired"] = len(fired)
    stats["probes"]["scribble_applied"] = sum(1 for p in fired if p.get("scribbled"))
    return {
        "_cache_updates": dict(_NEW_ENTRIES),
        "violations": V,
        "stats": stats,
        "events": len(sch.events) if sch else 0,
        "event_digest": digest([(k, t, i) for (_, k, t, i) in sch.events]) if sch else "",
        "schedule_digest": digest(sch.kinds()) if sch else "",
        "end_state": digest(end_state or {}),
        "nontrivial": bool(stats["faults"]) or len(scn["config"]["contexts"]) > 1,
    }


def count_cases():
    return len(enumerate_cases())


BUDGET = {
    "quick": {"runs": 1600, "seconds": 30, "selfcheck": 2, "crosscheck": 8},
    "thorough": {"runs": 120000, "seconds": 1200, "selfcheck": 10, "crosscheck": 40},
}

EVIDENCE = {
    "level": "fault_enumeration",
    "rule": (
        "Two parts, every case in its own forked process, every solo reference run in a pristine grandchild forked before the faulty run "
        "starts. (1) enumerated over two fixed base configs x six stream front ends: every single fault (F1 unknown-module, F2 "
        "unknown-test, F3 params-rejected x6 incl. a climatology member that is rejected, F4 input-missing x2, F5 stream-absent, F6 "
        "raises-on-data x16 exception classes x with/without scribbling) at every insertion position of every stream of every context "
        "(F3 and two F6 classes also re-run on the same objects); a whole context made only of absent streams at every context position; "
        "abandon + restart at every yield point for no fault / a scribbling fault / a rejected-parameter fault. (2) seeded search: "
        "generated tables/configs (all C05 table variations except NaT / sub-second clocks) with 0-4 faults of a random subset of kinds "
        "incl. data-dependent F6, uncopyable parameter objects, absent ids xarray could still resolve, dead contexts, fault storms (11-16 "
        "of one kind), sources without time, xarray variables on a dimension of their own; 1-6 front ends plus QcConfig.run advanced under "
        "a seeded interleaving with abandon/restart and up to two re-runs. Non-trivial: at least one fault entry or more than one context; "
        "distinct = distinct (digest of all yielded results, digest of the event-kind sequence). "
    ),
    "exhaustive_scope": "single-fault family, dead-context family and abandon-at-every-yield-point family over the two base configs only (coverage.enumerated_cases); the seeded search is sampling",
    "real": [
        "ioos_qc.config (Config, ContextConfig, Call.run, QcConfig.run)",
        "ioos_qc.streams (PandasStream, NumpyStream, NetcdfStream, XarrayStream)",
        "ioos_qc.results.collect_results (list and dict)",
        "ioos_qc.qartod / argo / axds test functions",
        "numpy, pandas, xarray, scipy NetCDF3 files on disk, ruamel.yaml, json",
    ],
    "stub": [
        "sim_probe / sim_fault QC functions registered inside ioos_qc.qartod/argo/axds",
        "dirty allocator wrappers over np.empty / np.empty_like / np.ma.empty / np.ma.empty_like / np.ma.masked_all(_like)",
        "cooperative generator scheduler",
    ],
    "assumptions": [
        "an entry is 'failing' by construction of the injected fault (role F1..F6); healthy entries are judged only against their own solo run on the same front end, executed in a separate pristine process before the faulty run starts",
        "BaseExceptions (KeyboardInterrupt, SystemExit) are not injected: the property does not ask that they be swallowed",
        "I/O errors on the data source are not injected: no property says what a run over an unreadable file does",
    ],
}
