"""C05 - running a config through any stream equals calling each test on its
window rows.

The stream front ends are *replicas* of one logical run, advanced under a seeded
interleaving with abandon/restart/re-run on the same stream and config objects,
under a seeded hash seed, from in-memory objects and from NetCDF files on disk.
Oracle: reference window model + direct call of the real test function on plain
arrays + a probe QC function recording what it actually received
(DESIGN.md section 3, C05).
"""
import numpy as np

from sim import pipeline as pl
from sim import replicas as rp
from sim import seams, workload as wl
from sim.util import digest, exc_signature, violation

PROP = "C05"
STREAM_FES = ("pandas", "numpy", "netcdf_obj", "netcdf_path", "xarray_obj", "xarray_path")


def generate(rng, tier="quick"):
    tbl = wl.gen_table(rng, max_n=24 if tier == "quick" else 40, no_time_p=0.06, unsorted_p=0.08, frac_p=0.18, nat_p=0.06)
    if rng.chance(0.12):
        tbl["xr_time"] = "var"
    cfg = wl.gen_config(rng, tbl, max_ctx=4, max_tests=3)
    plain = False
    if tbl.get("unsorted") and not tbl.get("nat") and rng.chance(0.5):
        # rows out of chronological order and no window anywhere: every front end, XarrayStream included, must cope
        cfg = wl.gen_config(rng, tbl, max_ctx=1, max_tests=3, window_layout="none")
        cfg["contexts"] = cfg["contexts"][:1]
        cfg["contexts"][0]["window"] = None
        plain = True
    single = len(tbl["cols"]) == 1 and rng.chance(0.3)
    pool = STREAM_FES
    if (tbl.get("unsorted") and not plain) or tbl.get("nat"):
        # label slices need a monotonic index: XarrayStream is not given rows out of chronological order / without a time
        pool = tuple(f for f in STREAM_FES if not f.startswith("xarray"))
    if tbl.get("no_files"):
        pool = tuple(f for f in pool if not f.endswith("_path"))
    fes = rng.subset(pool, 0.5, at_least=2)
    if len(tbl["cols"]) == 1 and rng.chance(0.6):
        fes.append("qcconfig")
    scn = {
        "format": 1,
        "property": PROP,
        "env": wl.gen_env(rng),
        "table": tbl,
        "config": cfg,
        "frontends": fes,
        "schedule": wl.gen_schedule(rng, len(fes)),
        "abandon": [],
        "reruns": [],
        "share_config": rng.chance(0.4),
    }
    if not plain and rng.chance(0.35):
        alt = wl.gen_config(rng, tbl, max_ctx=3, max_tests=2)
        if rng.chance(0.5):
            # the same windows as the main config (equal Context objects), other streams / tests / parameters
            import copy

            donors = [c["entries"] for c in alt["contexts"]]
            alt["contexts"] = [
                {"window": copy.deepcopy(c.get("window")), "entries": copy.deepcopy(donors[i % len(donors)])}
                for i, c in enumerate(cfg["contexts"])
            ]
            alt["layout"] = "contexts"
        scn["alt_config"] = alt
        scn["alt_on"] = rng.subset([f for f in fes if f != "qcconfig"], 0.6, at_least=1)
    if rng.chance(0.2):
        scn["twin_on"] = rng.subset([f for f in fes if f != "qcconfig"], 0.5, at_least=1)
    if not plain and not scn["share_config"] and rng.chance(0.12):
        # run, Config.add(more), run again on the same Config object (exclusive with user calls below)
        cands = [f for f in fes if f != "qcconfig" and f not in scn.get("twin_on", [])]
        if cands:
            extra = wl.gen_config(rng, tbl, max_ctx=2, max_tests=2)
            extra["carrier"], extra["build"], extra["share_document"], extra["layout"] = "dict", "direct", False, "contexts"
            # windows of the added contexts differ from the existing ones: whether "the same window" spelled in another
            # type (string vs Timestamp) is the same Context is not something the property settles
            taken = {pl.context_key(c)[:2] for c in cfg["contexts"]}
            extra["contexts"] = [c for c in extra["contexts"] if pl.context_key(c)[:2] not in taken]
            if extra["contexts"]:
                scn["add_after_run"] = {"config": extra, "on": rng.subset(cands, 0.6, at_least=1)}
    if not plain and "add_after_run" not in scn and rng.chance(0.12):
        # the user's own check functions, handed over as Call objects: same name and module, different signatures
        taken = {pl.context_key(c)[:2] for c in cfg["contexts"]}
        wins = [w for w in wl._mixed(rng, wl.boundary_points(rng, tbl["times"]), 4) if (pl.bound_ns(w, "starting"), pl.bound_ns(w, "ending")) not in taken and not tbl.get("no_time")]
        uc, seen_w = [], set()
        for w in wins:
            key = (w.get("starting"), w.get("ending"))
            if key in seen_w or key == (None, None):
                continue
            seen_w.add(key)
            uc.append({"sid": rng.pick(list(tbl["cols"])), "variant": rng.pick(("inp", "inp_z", "inp_t", "all")), "tag": rng.randint(0, 4), "window": w})
        if len(uc) >= 2:
            scn["user_calls"] = uc[:3]
            cfg["build"] = "direct"
            scn.pop("alt_config", None)
            scn.pop("alt_on", None)
    if "user_calls" not in scn and "add_after_run" not in scn and not scn["share_config"] and cfg["carrier"] in ("dict", "odict") and cfg.get("build", "direct") == "direct" and rng.chance(0.12):
        # run, replace one call of config.calls in place (same test, other parameters), run again
        cands = [f for f in fes if f != "qcconfig" and f not in scn.get("twin_on", [])]
        flat = [(ci, e) for ci, c in enumerate(cfg["contexts"]) for e in _nested_order(c["entries"])]
        if cands and flat:
            k = rng.randrange(len(flat))
            ci, e = flat[k]
            gen = {(t[0], t[1]): t[2] for t in wl.TESTS}.get((e["module"], e["test"]))
            if gen is not None:
                new_e = dict(e, params=gen(rng))
                one = {"contexts": [{"window": cfg["contexts"][ci].get("window"), "entries": [new_e]}], "window_form": cfg["window_form"], "carrier": "dict", "layout": "contexts", "param_form": "plain", "build": "direct", "share_document": False}
                if cfg["contexts"][ci].get("region"):
                    one["contexts"][0]["region"] = cfg["contexts"][ci]["region"]
                scn["edit_after_run"] = {"call_index": k, "ctx": ci, "entry": new_e, "one_call_config": one, "on": rng.subset(cands, 0.6, at_least=1)}
    sids = {e["sid"] for c in cfg["contexts"] + (scn.get("alt_config") or {"contexts": []})["contexts"] + (scn.get("add_after_run") or {"config": {"contexts": []}})["config"]["contexts"] for e in c["entries"]}
    if single and sids <= set(tbl["cols"]):
        # NumpyStream given one bare array instead of a dict of arrays (it then serves every stream id,
        # so only when the config names no other stream)
        tbl["numpy_single"] = True
    for fe in fes:
        if fe == "qcconfig":
            continue
        x = rng.random()
        if fe in (scn.get("add_after_run") or {"on": []})["on"] or fe in (scn.get("edit_after_run") or {"on": []})["on"]:
            scn["reruns"].append(fe)
            continue
        if x < 0.2:
            scn["abandon"].append({"task": fe, "after_yields": rng.randint(1, 3), "restart": True})
        elif x < 0.4:
            scn["reruns"].append(fe)
            if rng.chance(0.3):
                scn["reruns"].append(fe)  # a third run on the same objects
    return scn


def _nested_order(entries):
    """Entries of one context in the order Config turns them into calls (stream -> module -> test)."""
    nested = pl.nested_streams(entries)
    by_key = {(e["sid"], e["module"], e["test"]): e for e in entries}
    return [by_key[(sid, m, t)] for sid, mods in nested.items() for m, tests in mods.items() for t in tests]


def classify_subset(item_mask, model_mask, window, times, scn, fe):
    im = np.asarray(item_mask)
    if im.shape != model_mask.shape:
        return "subset-shape"
    extra = im & ~model_mask
    missing = model_mask & ~im
    if fe.startswith("xarray") and scn["table"].get("xr_time") == "var" and im.all() and not model_mask.all():
        return "window-ignored-time-not-coordinate"
    lo, hi = pl.bound_ns(window, "starting"), pl.bound_ns(window, "ending")
    if extra.any() and not missing.any():
        if hi is not None and all(times[i] == hi for i in np.flatnonzero(extra)):
            return "extra-row-exactly-at-ending"
        if im.all():
            return "window-ignored"
        return "extra-rows"
    if missing.any() and not extra.any():
        if lo is not None and all(times[i] == lo for i in np.flatnonzero(missing)):
            return "missing-row-exactly-at-starting"
        return "missing-rows"
    return "rows-misplaced"


def execute(scn):
    seams.set_dirty(scn["env"].get("dirty"))
    seams.register_sim_functions()
    del seams.PROBE_LOG[:]
    tbl, cfg = scn["table"], scn["config"]
    times = pl.row_times(tbl)
    arrays = pl.table_arrays(tbl)
    V = []
    stats = {"probes": {}, "faults": {}, "compared_yields": 0, "probe_checks": 0}

    def bump(k, n=1):
        stats["probes"][k] = stats["probes"].get(k, 0) + n

    shared = None
    if scn.get("share_config"):
        try:
            shared = pl.build_config(cfg)
        except Exception as e:  # noqa: BLE001
            V.append(violation(PROP, "run", "config", exc_signature(e), "Config(...) raised"))
            return finish(scn, V, stats, None, {})
    # reference execution first (direct calls on plain arrays)
    main_cfg = pl.with_user_calls(cfg, scn["user_calls"]) if scn.get("user_calls") else cfg
    exps = {"main": rp.annotate_expected(scn, arrays, main_cfg)}
    if scn.get("user_calls"):
        bump("user_functions_in_call_objects")
    if scn.get("alt_config"):
        exps["alt"] = rp.annotate_expected(scn, arrays, scn["alt_config"])
    if scn.get("edit_after_run"):
        ed = scn["edit_after_run"]
        import copy as _copy

        cfg_ed = _copy.deepcopy(cfg)
        ent = ed["entry"]
        cfg_ed["contexts"][ed["ctx"]]["entries"] = [
            _copy.deepcopy(ent) if (x["sid"], x["module"], x["test"]) == (ent["sid"], ent["module"], ent["test"]) else x
            for x in cfg_ed["contexts"][ed["ctx"]]["entries"]
        ]
        exps["edited"] = rp.annotate_expected(scn, arrays, cfg_ed)
    if scn.get("add_after_run"):
        exps["added"] = rp.annotate_expected(scn, arrays, dict(cfg, contexts=cfg["contexts"] + scn["add_after_run"]["config"]["contexts"]))
    for e in exps["main"] + exps.get("alt", []) + exps.get("added", []) + exps.get("edited", []):
        w = e["window"]
        if w and times:
            if pl.bound_ns(w, "ending") is not None and pl.bound_ns(w, "ending") in times:
                bump("row_exactly_at_ending")
            if pl.bound_ns(w, "starting") is not None and pl.bound_ns(w, "starting") in times:
                bump("row_exactly_at_starting")
            if w.get("starting_ns") or w.get("ending_ns"):
                bump("window_bound_with_nanoseconds")
            if (w.get("starting") is None) != (w.get("ending") is None):
                bump("half_open_window")
        if e["rows"].sum() == 0:
            bump("empty_window")
        if e["fails"]:
            bump("direct_call_raises")
    if tbl.get("names"):
        bump("custom_axis_names")
    if any(c.get("region") for c in cfg["contexts"]):
        bump("context_with_region")
    if tbl.get("xr_time") == "var":
        bump("time_is_data_variable")
    if tbl.get("no_time"):
        bump("source_without_time_axis")
    if tbl.get("unsorted"):
        bump("rows_not_chronological")
        if any(f.startswith("xarray") for f in scn["frontends"]):
            bump("rows_not_chronological_on_xarray")
    if tbl.get("nat"):
        bump("rows_without_time_NaT")
    if tbl.get("frac_ms"):
        bump("sub_second_times")
    reps = rp.build_replicas(scn, shared)
    sch = rp.run_replicas(scn, reps)
    if sch.timeout:
        return {"harness_error": "event cap reached", "violations": [], "stats": stats}

    dicts = {}
    end_state = {}
    for r in reps:
        fe = r.frontend
        exp = exps[r.which]
        if getattr(r, "added", False):
            exp = exps["added"]  # the final run happened after Config.add(...)
            bump("config_add_between_runs")
        if getattr(r, "edited", False):
            exp = exps["edited"]  # the final run happened after config.calls[k] = ...
            bump("config_call_replaced_between_runs")
        if r.which == "alt":
            bump("alt_config_on_same_stream")
        if r.name.endswith("+twin"):
            bump("twin_generator_on_same_stream")
        if r.setup_error is not None:
            V.append(violation(PROP, "run", fe, r.setup_error[1], f"building stream/config raised: {r.setup_error[0]!r}"))
            continue
        t = r.task
        if t.state == "crashed":
            V.append(violation(PROP, "run", fe, t.crash[1], f"run raised: {t.crash[0]!r}"))
            continue
        ys = rp.final_yields(t)
        if ys is None:
            continue
        if fe != "qcconfig" and t.steps > len(exp) + 1:
            V.append(violation(PROP, "run", fe, "step-bound", f"{t.steps} steps for {len(exp)} configured calls"))
        final_desc = [rp.describe_item(i) for i, _ in ys]
        for kind, part in t.history[:-1]:
            if getattr(r, "added", False) or getattr(r, "edited", False):
                break  # the earlier run was of the config before it was extended / edited
            pd_ = [rp.describe_item(i) for i, _ in part]
            if pd_ != final_desc[: len(pd_)]:
                V.append(violation(PROP, "e", fe, "rerun-differs", f"{kind} incarnation differs from the final run"))
                break
            bump(f"{kind}_then_same")
        end_state[r.name] = final_desc
        if fe == "qcconfig":
            check_qcconfig(scn, ys, exp, V, stats, bump)
            continue
        tainted = False
        pairs, lonely, free = rp.match_yields(ys, exp, arrays, times)
        for yi in lonely:
            V.append(violation(PROP, "b", fe, "unexpected-yield", f"yield {yi} for {ys[yi][0].stream_id} matches no configured call"))
            tainted = True
        for ei in free:
            e = exp[ei]["entry"]
            V.append(violation(PROP, "b", fe, "missing-yield", f"no yield for ctx{exp[ei]['ctx']} {e['sid']}/{e['module']}.{e['test']}"))
            tainted = True
        for yi, ei in pairs:
            item, probes = ys[yi]
            ex = exp[ei]
            ent = ex["entry"]
            label = f"ctx{ex['ctx']} {ent['sid']}/{ent['module']}.{ent['test']}"
            stats["compared_yields"] += 1
            # a. rows
            if np.shape(item.subset_indexes) != ex["rows"].shape or not np.array_equal(item.subset_indexes, ex["rows"]):
                sig = classify_subset(item.subset_indexes, ex["rows"], ex["window"], times, scn, fe)
                V.append(violation(PROP, "a", fe, sig, f"{label}: rows {np.asarray(item.subset_indexes).astype(int).tolist()} model {ex['rows'].astype(int).tolist()}"))
                tainted = True
                continue
            # b. flags
            want = pl.flags_json(ex["direct"])
            res = rp.results_of(item)
            got = pl.flags_json(res[0].results) if res else None
            if got != want:
                if want is None:
                    sig = "result-where-direct-call-raises"
                elif got is None:
                    sig = "no-result-where-direct-call-succeeds"
                elif len(got) != len(want):
                    sig = "flag-count-differs"
                else:
                    sig = "flags-differ"
                V.append(violation(PROP, "b", fe, f"{sig}:{ent['module']}.{ent['test']}", f"{label}: stream {got} direct {want}"))
                tainted = True
                continue
            if res and (res[0].package, res[0].test) != (ent["module"], ent["test"]):
                V.append(violation(PROP, "b", fe, "mislabelled-result", f"{label}: labelled {res[0].package}.{res[0].test}"))
            if res and not rp.readable_again(item):
                V.append(violation(PROP, "b", fe, "results-readable-only-once", f"{label}: the flags of this context can be read once, a second reading gives nothing"))
            # data / axes carried by the ContextResult are the window rows too
            for name, src in (("data", arrays["cols_ext"][ent["sid"]]), ("tinp", arrays["time"]), ("zinp", arrays["z"]), ("lat", arrays["lat"]), ("lon", arrays["lon"])):
                have = getattr(item, name)
                if src is None:
                    continue
                wantv = pl.seams.anyarray_to_json(src[ex["rows"]])
                gotv = pl.seams.anyarray_to_json(have)
                if name == "tinp" and gotv is not None and "f" in gotv:
                    gotv = {"t": gotv["f"]}
                if _vals(gotv) != _vals(wantv):
                    V.append(violation(PROP, "c", fe, f"context-result-{name}", f"{label}: {gotv} expected {wantv}"))
            # c. what the probe actually received
            if ent["test"] == "sim_probe":
                mine = [p for p in probes if p["fn"] == "sim_probe" and p["module"] == ent["module"] and p["tag"] == ent["params"].get("tag", 0)]
                if len(mine) != 1:
                    V.append(violation(PROP, "c", fe, "probe-invocations", f"{label}: probe invoked {len(mine)} times in its step"))
                else:
                    stats["probe_checks"] += 1
                    p = mine[0]
                    for name, src in (("inp", arrays["cols_ext"][ent["sid"]]), ("tinp", arrays["time"]), ("zinp", arrays["z"]), ("lat", arrays["lat"]), ("lon", arrays["lon"])):
                        wantv = None if src is None else pl.seams.anyarray_to_json(src[ex["rows"]])
                        gotv = p[name]
                        if _vals(gotv) != _vals(wantv):
                            V.append(violation(PROP, "c", fe, f"probe-{name}", f"{label}: received {gotv} expected {wantv}"))
        if not tainted and r.which == "main" and not r.name.endswith("+twin") and not getattr(r, "added", False) and not getattr(r, "edited", False):
            try:
                from ioos_qc.results import collect_results

                dicts[fe] = rp.dict_results_json_full(collect_results(iter([i for i, _ in ys]), how="dict"))
                collect_results(iter([i for i, _ in ys]), how="list")
            except Exception as e:  # noqa: BLE001 - the collector is C06's subject; only note it here
                bump("collector_raised")
            # what a context reported stays what the test function returned, also after the run was rolled up
            after = [rp.describe_item(i) for i, _ in ys]
            if after != final_desc:
                k = next(j for j in range(len(after)) if after[j] != final_desc[j])
                V.append(violation(PROP, "b", fe, "context-result-changed-by-collecting", f"yield {k}: {final_desc[k]} became {after[k]}"))
            else:
                bump("yields_intact_after_collection")
    # d. replicas agree pairwise
    names = sorted(dicts)
    for a in names[1:]:
        if dicts[a] != dicts[names[0]]:
            V.append(violation(PROP, "d", f"{names[0]}|{a}", "replicas-disagree", f"{dicts[names[0]]} vs {dicts[a]}"))
        else:
            bump("replica_pairs_agree")
    return finish(scn, V, stats, sch, end_state)


def _vals(j):
    if j is None:
        return None
    return next(iter(j.values()))


def check_qcconfig(scn, ys, exp, V, stats, bump):
    tbl = scn["table"]
    times = pl.row_times(tbl)
    sid = scn.get("qc_sid") or next(iter(tbl["cols"]))
    got = rp.dict_results_json(ys[0][0][1])
    per_key = {}
    for ex in exp:
        ent = ex["entry"]
        if ent["sid"] == sid:
            per_key.setdefault((ent["module"], ent["test"]), []).append(ex)
    for (m, t), lst in sorted(per_key.items()):
        have = got.get(m, {}).get(t)
        ok = [ex for ex in lst if not ex["fails"]]
        if not ok:
            if have is not None:
                V.append(violation(PROP, "b", "qcconfig", f"result-where-direct-call-raises:{m}.{t}", f"{have}"))
            continue
        if have is None:
            V.append(violation(PROP, "b", "qcconfig", f"no-result-where-direct-call-succeeds:{m}.{t}", ""))
            continue
        if len(have) != len(times):
            V.append(violation(PROP, "b", "qcconfig", f"flag-count-differs:{m}.{t}", f"{len(have)} flags for {len(times)} rows"))
            continue
        cover = np.zeros(len(times), dtype=int)
        for ex in lst:
            cover += ex["rows"].astype(int)
        stats["compared_yields"] += 1
        for ex in ok:
            want = pl.flags_json(ex["direct"])
            idx = np.flatnonzero(ex["rows"])
            bad = [int(r) for j, r in enumerate(idx) if cover[r] == 1 and have[int(r)] != want[j]]
            if bad:
                V.append(violation(PROP, "b", "qcconfig", f"flags-differ:{m}.{t}", f"rows {bad[:6]}: {have} direct {want} on rows {idx.tolist()}"))
                break


def finish(scn, V, stats, sch, end_state):
    ctxs = scn["config"]["contexts"]
    return {
        "violations": V,
        "stats": stats,
        "events": len(sch.events) if sch else 0,
        "event_digest": digest([(k, t, i) for (_, k, t, i) in sch.events]) if sch else "",
        "schedule_digest": digest(sch.kinds()) if sch else "",
        "end_state": digest(end_state),
        "nontrivial": len(ctxs) > 1 or any(c.get("window") for c in ctxs) or len(scn["frontends"]) > 1,
    }


BUDGET = {
    "quick": {"runs": 3600, "seconds": 50, "selfcheck": 2, "crosscheck": 8},
    "thorough": {"runs": 150000, "seconds": 1200, "selfcheck": 10, "crosscheck": 40},
}

EVIDENCE = {
    "level": "exploration",
    "rule": (
        "Seeded scenarios, each executed in its own forked process. Table: 0-40 rows (now and then 150-400); range / offset / datetime / "
        "permuted / string index; with or without z/lat/lon and without any time axis; non-default axis column names; float64 / float32 / "
        "int32 / int64 (beyond 2**53) columns; read-only arrays; rows out of chronological order, rows without a time (NaT), quarter-second "
        "and nanosecond clock offsets; time as coordinate or as data variable (xarray). Config: 1-4 contexts (closed, half-open, empty, "
        "all-covering, absent windows, bounds before/on/between/after/one second after row times, optionally with nanoseconds; GeoJSON "
        "regions; equal contexts repeated at non-adjacent positions) over real qartod/argo/axds tests, tests on the depth column itself and "
        "the recording probe; 7 carriers, 4 window spellings, parameters as lists / tuples / numpy scalars, Config built directly, from "
        "calls, from a Config, or with add(). Front ends: 2-7 replicas (object- and file-backed) advanced under a seeded interleaving with "
        "abandon/restart, up to two re-runs, a twin generator and a second config on the same stream object, Config.add() or an in-place "
        "replacement in config.calls between two runs, user-written functions of one name and different signatures handed over as Call "
        "objects; seeded PYTHONHASHSEED, dirty allocator, MALLOC_PERTURB_ on every fourth worker. Non-trivial: more than one context, or a "
        "window, or more than one front end. Distinct: distinct (digest of everything yielded by every replica, digest of the event-kind sequence). "
    ),
    "real": [
        "ioos_qc.config (Config, ContextConfig, Call.run, QcConfig.run)",
        "ioos_qc.streams (PandasStream, NumpyStream, NetcdfStream, XarrayStream), object- and file-backed",
        "ioos_qc.qartod / argo / axds test functions (also as the reference, called directly on plain arrays)",
        "numpy, pandas, xarray, scipy NetCDF3 reader/writer on real files, ruamel.yaml, json",
    ],
    "stub": ["sim_probe QC function", "dirty allocator wrappers", "cooperative generator scheduler", "reference window model"],
    "assumptions": [
        "times distinct, whole seconds, naive (no tz); window bounds naive; rows out of chronological order are not given to XarrayStream (label slices need a monotonic index)",
        "no two contexts of one config have the same (starting, ending) pair (they would be merged by Config.contexts)",
        "the reference execution passes float64 / datetime64[ns] ndarrays; PandasStream passes Series - a difference caused only by the carrier would be a C15 matter and is triaged before being reported",
    ],
}
