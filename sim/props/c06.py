"""C06 - collected results put every context's flags back on the right rows.

ContextResults are *messages*; ``collect_results`` is the fold.  Messages come
from (i) real streams run over disjoint-window configs and (ii) hand-built
ContextResults over seeded disjoint layouts; the scheduler delivers them through
a lazy iterator in several seeded orders to the list and the dict collector
(two replicas of the same fold), with the dirty allocator filling every
accumulator first (DESIGN.md section 3, C06).
"""
import copy
from importlib import import_module

import numpy as np

from sim import pipeline as pl
from sim import replicas as rp
from sim import seams, workload as wl
from sim.util import digest, exc_signature, violation

PROP = "C06"
KEYS = (
    ("v1", "qartod", "sim_probe"),
    ("v1", "argo", "sim_probe"),
    ("v2", "qartod", "sim_probe"),
    ("v1", "qartod", "spike_test"),
    ("v2", "axds", "sim_probe"),
    ("v2", "qartod", "flat_line_test"),
)


# --------------------------------------------------------------------------
# generation
# --------------------------------------------------------------------------
def gen_layout(rng, n):
    """Disjoint contiguous row ranges, incl. empty and all-covering ones."""
    style = rng.weighted([("partition", 4), ("gaps", 4), ("all+empty", 2), ("single", 1)])
    if n == 0:
        return [[] for _ in range(rng.randint(1, 3))]
    if style == "all+empty":
        out = [list(range(n))] + [[] for _ in range(rng.randint(1, 2))]
        rng.shuffle(out)
        return out
    if style == "single":
        a, b = sorted((rng.randint(0, n), rng.randint(0, n)))
        return [list(range(a, b))]
    k = rng.randint(1, min(4, n))
    cuts = sorted(rng.sample(range(n + 1), min(n + 1, k + 1)))
    ranges = [list(range(cuts[i], cuts[i + 1])) for i in range(len(cuts) - 1)]
    if style == "gaps":
        ranges = [r[: max(0, len(r) - rng.randint(0, 2))] for r in ranges]
    if rng.chance(0.3):
        ranges.append([])
    return ranges or [[]]


def generate(rng, tier="quick"):
    if rng.chance(0.35):
        return generate_stream_source(rng, tier)
    tbl = wl.gen_table(rng, max_n=20 if tier == "quick" else 40, nsids=2, index_kinds=("range",))
    n = len(tbl["times"])
    layout = gen_layout(rng, n)
    keys = rng.subset(list(KEYS), 0.4, at_least=1)
    multi = rng.chance(0.1)
    messages = []
    for ci, rows in enumerate(layout):
        ctx_keys = rng.subset(keys, 0.8, at_least=1)
        by_sid = {}
        for k in ctx_keys:
            by_sid.setdefault(k[0], []).append(k)
        for sid, ks in by_sid.items():
            groups = [ks] if multi else [[k] for k in ks]
            for g in groups:
                res = []
                for k in g:
                    if rng.chance(0.08):
                        continue  # the call failed: no CallResult
                    res.append({"module": k[1], "test": k[2], "flags": [rng.pick(seams.FLAGSET) for _ in rows], "dtype": rng.pick(("uint8", "uint8", "int64"))})
                messages.append({"ctx": ci, "sid": sid, "rows": rows, "results": res})
    orders = [list(range(len(messages)))]
    for _ in range(rng.randint(1, 3)):
        p = list(range(len(messages)))
        rng.shuffle(p)
        orders.append(p)
    return {
        "format": 1,
        "property": PROP,
        "source": "handbuilt",
        "env": wl.gen_env(rng),
        "table": tbl,
        "messages": messages,
        "orders": orders,
        "readonly": rng.chance(0.5),
    }


def generate_stream_source(rng, tier):
    tbl = wl.gen_table(rng, max_n=20 if tier == "quick" else 40, index_kinds=("range", "offset", "perm"), unsorted_p=0.12, frac_p=0.16)
    cfg = wl.gen_config(rng, tbl, max_ctx=4, max_tests=2, window_layout="disjoint")
    fe = rng.pick(("pandas", "numpy", "netcdf_obj") if tbl.get("unsorted") else ("pandas", "numpy", "xarray_obj", "netcdf_obj"))
    if tbl.get("frac_ns") or tbl.get("frac_ms"):
        cfg["carrier"] = rng.pick(("dict", "odict", "json"))
    if fe == "xarray_obj" and tbl.get("xr_time", "coord") == "coord" and rng.chance(0.3):
        # a dataset whose variables do not all lie along time: "w" has a dimension of its own
        n = len(tbl["times"])
        tbl["side"] = {"name": "w", "values": wl.gen_values(rng, n + rng.randint(1, 3))}
        for c in cfg["contexts"]:
            if rng.chance(0.7):
                mod, test, gen = rng.pick((("qartod", "gross_range_test", wl.p_gross_range), ("qartod", "spike_test", wl.p_spike), ("argo", "sim_probe", wl.p_probe)))
                c["entries"].insert(0 if rng.chance(0.6) else rng.randint(0, len(c["entries"])), {"sid": "w", "module": mod, "test": test, "params": gen(rng), "role": "healthy"})
        nmsg = sum(len(c["entries"]) for c in cfg["contexts"])
        orders = [list(range(nmsg))] + [rng.sample(range(nmsg), nmsg) for _ in range(rng.randint(1, 2))]
    nmsg = sum(len(c["entries"]) for c in cfg["contexts"])
    orders = [list(range(nmsg))]
    for _ in range(rng.randint(1, 2)):
        p = list(range(nmsg))
        rng.shuffle(p)
        orders.append(p)
    scn = {
        "format": 1,
        "property": PROP,
        "source": "stream",
        "env": wl.gen_env(rng),
        "table": tbl,
        "config": cfg,
        "frontend": fe,
        "orders": orders,
    }
    if rng.chance(0.15):
        # the run that is collected is the second one on this Config object, after Config.add(more)
        extra = wl.gen_config(rng, tbl, max_ctx=2, max_tests=2, window_layout="disjoint")
        extra["carrier"], extra["build"], extra["share_document"], extra["layout"] = "dict", "direct", False, "contexts"
        taken = {pl.context_key(c)[:2] for c in cfg["contexts"]}
        extra["contexts"] = [c for c in extra["contexts"] if pl.context_key(c)[:2] not in taken]
        if extra["contexts"]:
            scn["add_after_run"] = extra
            nmsg += sum(len(c["entries"]) for c in extra["contexts"])
            scn["orders"] = [list(range(nmsg))] + [rng.sample(range(nmsg), nmsg) for _ in range(rng.randint(1, 2))]
    return scn


# --------------------------------------------------------------------------
# execution
# --------------------------------------------------------------------------
def build_messages(scn):
    from ioos_qc.results import CallResult, ContextResult

    tbl = scn["table"]
    a = pl.table_arrays(tbl)
    n = a["n"]
    msgs = []
    for m in scn["messages"]:
        mask = np.zeros(n, dtype=bool)
        mask[m["rows"]] = True
        res = []
        for r in m["results"]:
            func = getattr(import_module(f"ioos_qc.{r['module']}"), r["test"])
            res.append(CallResult(package=r["module"], test=r["test"], function=func, results=np.array(r["flags"], dtype=r.get("dtype", "uint8"))))

        def ax(src, dtype):
            arr = src[mask].copy() if src is not None else np.array([], dtype=dtype)
            if scn.get("readonly"):
                arr.setflags(write=False)
            return arr

        msgs.append(
            ContextResult(
                stream_id=m["sid"],
                results=res,
                subset_indexes=mask,
                data=ax(a["cols"][m["sid"]], "float64"),
                tinp=ax(a["time"], "datetime64[ns]"),
                zinp=ax(a["z"], "float64"),
                lat=ax(a["lat"], "float64"),
                lon=ax(a["lon"], "float64"),
            ),
        )
    return msgs


def stream_messages(scn):
    stream, closer = pl.make_stream(scn["frontend"], scn["table"])
    try:
        config = pl.build_config(scn["config"])
        if scn.get("add_after_run"):
            list(stream.run(config))                      # a first run, consumed
            config.add(pl.build_config(scn["add_after_run"]))
        return list(stream.run(config))
    finally:
        if closer:
            closer()


def configured_keys(scn):
    """(stream, module, test) keys the configuration asks for and that can run on this source
    (reference: the direct call on the window rows succeeds for at least one context)."""
    cfg = scn["config"]
    if scn.get("add_after_run"):
        cfg = dict(cfg, contexts=cfg["contexts"] + scn["add_after_run"]["contexts"])
    arrays = pl.table_arrays(scn["table"])
    exp = rp.annotate_expected(scn, arrays, cfg)
    runnable, all_keys = set(), set()
    window_model = {}   # key -> {row: flag the covering context produces (direct call on its window rows)}
    cover = {}
    for e in exp:
        k = (e["entry"]["sid"], e["entry"]["module"], e["entry"]["test"])
        all_keys.add(k)
        if not e["fails"]:
            runnable.add(k)
        if e.get("side"):
            continue
        for row in np.flatnonzero(e["rows"]):
            cover.setdefault(k, {}).setdefault(int(row), 0)
            cover[k][int(row)] += 1
        if not e["fails"]:
            fl = pl.flags_json(e["direct"])
            for j, row in enumerate(np.flatnonzero(e["rows"])):
                window_model.setdefault(k, {})[int(row)] = fl[j] if j < len(fl) else None
    for k in window_model:
        window_model[k] = {r: f for r, f in window_model[k].items() if cover[k][r] == 1}
    return runnable, all_keys, window_model


def model_of(msgs, n):
    """key -> {row: flag}, plus per-key data/axes on covered rows, plus overlap marks."""
    model = {}
    for m in msgs:
        rows = np.flatnonzero(np.asarray(m.subset_indexes))
        for r in rp.results_of(m):
            key = (m.stream_id, r.package, r.test)
            d = model.setdefault(key, {"flags": {}, "dup": set()})
            fl = pl.flags_json(r.results)
            for j, row in enumerate(rows):
                row = int(row)
                if row in d["flags"]:
                    d["dup"].add(row)
                d["flags"][row] = fl[j] if j < len(fl) else None
    return model


def msg_digest(m):
    return digest(
        [
            m.stream_id,
            np.asarray(m.subset_indexes).astype(int).tolist(),
            [(r.package, r.test, pl.flags_json(r.results)) for r in rp.results_of(m)],
            seams.anyarray_to_json(m.data),
            seams.anyarray_to_json(m.tinp),
            seams.anyarray_to_json(m.zinp),
        ],
    )


def lazily(msgs, order):
    for i in order:
        if i < len(msgs):
            yield msgs[i]


def execute(scn):
    from ioos_qc.results import collect_results

    seams.set_dirty(scn["env"].get("dirty"))
    seams.register_sim_functions()
    del seams.PROBE_LOG[:]
    tbl = scn["table"]
    a = pl.table_arrays(tbl)
    n = a["n"]
    V = []
    stats = {"probes": {}, "faults": {}, "deliveries": 0}

    def bump(k, c=1):
        stats["probes"][k] = stats["probes"].get(k, 0) + c

    try:
        msgs = build_messages(scn) if scn["source"] == "handbuilt" else stream_messages(scn)
    except Exception as e:  # noqa: BLE001 - producing the messages is not this property's subject
        return {"violations": [], "stats": stats, "events": 0, "event_digest": "", "schedule_digest": "", "end_state": "src-failed:" + exc_signature(e), "nontrivial": False}
    model = model_of(msgs, n)
    before = [msg_digest(m) for m in msgs]
    window_model = None
    if scn["source"] == "stream":
        # what is collected is what was configured: one result per configured (stream, module, test) that can run
        runnable, all_keys, window_model = configured_keys(scn)
        missing = sorted(runnable - set(model))
        extra = sorted(set(model) - all_keys)
        if missing:
            V.append(violation(PROP, "a", "run", "configured-test-without-result", f"{missing}"))
        if extra:
            V.append(violation(PROP, "a", "run", "result-for-unconfigured-test", f"{extra}"))
        if scn.get("add_after_run"):
            bump("config_add_between_runs")
    if any(d["dup"] for d in model.values()):
        bump("overlap_skipped")  # not generated on purpose; stream windows are disjoint by construction
    masks = [np.asarray(m.subset_indexes) for m in msgs]
    if any(mk.all() and mk.size for mk in masks) and len(msgs) > 1:
        bump("all_covering_with_others")
    if any(not mk.any() for mk in masks):
        bump("empty_window_message")
    if any(len(rp.results_of(m)) > 1 for m in msgs):
        bump("multi_result_message")
    if any(len(rp.results_of(m)) == 0 for m in msgs):
        bump("failed_call_message")
    if any(m.zinp.size == 0 and mk.any() for m, mk in zip(msgs, masks)):
        bump("axis_absent")
    src_axes = {"data": None, "tinp": a["time"], "zinp": a["z"], "lat": a["lat"], "lon": a["lon"]}
    outcomes = []
    events = []
    for oi, order in enumerate(scn["orders"]):
        out = {}
        for how in ("list", "dict"):
            stats["deliveries"] += 1
            events.append(("DELIVER", how, tuple(order)))
            try:
                col = collect_results(lazily(msgs, order), how=how)
            except Exception as e:  # noqa: BLE001
                V.append(violation(PROP, "a", f"collect_{how}", exc_signature(e), f"order {order}: {e!r}"))
                out[how] = "raised"
                continue
            if how == "list":
                keys = [(c.stream_id, c.package, c.test) for c in col]
                got = {}
                for c in col:
                    got.setdefault((c.stream_id, c.package, c.test), c)
                if len(keys) != len(set(keys)):
                    V.append(violation(PROP, "a", "collect_list", "duplicate-result", f"{keys}"))
            else:
                got = {(s, m, t): col[s][m][t] for s in col for m in col[s] for t in col[s][m]}
                keys = list(got)
            if set(keys) != set(model):
                extra, missing = sorted(set(keys) - set(model)), sorted(set(model) - set(keys))
                V.append(violation(PROP, "a", f"collect_{how}", "extra-result" if extra else "missing-result", f"extra {extra} missing {missing}"))
            canon_out = {}
            for key in sorted(set(keys) & set(model)):
                d = model[key]
                arr = got[key].results if how == "list" else got[key]
                side_key = bool(scn["table"].get("side")) and key[0] == scn["table"]["side"]["name"]
                klen = len(scn["table"]["side"]["values"]) if side_key else n
                if np.shape(arr) != (klen,):
                    V.append(violation(PROP, "b", f"collect_{how}", "length", f"{key}: shape {np.shape(arr)} for {klen} rows"))
                    continue
                fj = pl.flags_json(arr)
                canon_out[str(key)] = fj
                if window_model is not None and key in window_model:
                    # end to end: the row a context's window covers carries the flag that context produces for it
                    bad = [r for r, f in sorted(window_model[key].items()) if r < n and fj[r] != f]
                    if bad:
                        V.append(violation(PROP, "c", f"collect_{how}", "row-carries-another-contexts-flag", f"{key} rows {bad[:5]}: {[fj[r] for r in bad[:5]]} expected {[window_model[key][r] for r in bad[:5]]}"))
                for row in range(klen):
                    if row in d["dup"]:
                        continue
                    if row in d["flags"]:
                        if fj[row] != d["flags"][row]:
                            sig = "covered-row-masked" if fj[row] == "M" else "covered-row-wrong-flag"
                            V.append(violation(PROP, "c", f"collect_{how}", sig, f"{key} row {row}: {fj[row]} expected {d['flags'][row]} (order {order})"))
                            break
                    else:
                        want = "M" if how == "list" else 2
                        if fj[row] != want:
                            V.append(violation(PROP, "d", f"collect_{how}", "uncovered-row-not-" + ("masked" if how == "list" else "UNKNOWN"), f"{key} row {row}: {fj[row]} (order {order})"))
                            break
                if how == "list":
                    c = got[key]
                    covered = sorted(r for r in d["flags"] if r not in d["dup"])
                    for name, src in src_axes.items():
                        src = a["cols_ext"][key[0]] if name == "data" else src
                        if src is None or not covered or (side_key and name != "data"):
                            continue
                        have = getattr(c, name)
                        if have is None or np.shape(have) != (klen,):
                            V.append(violation(PROP, "f", "collect_list", f"{name}-shape", f"{key}: {None if have is None else np.shape(have)}"))
                            continue
                        hv = seams.anyarray_to_json(have)
                        wv = seams.anyarray_to_json(src)
                        hv, wv = next(iter(hv.values())), next(iter(wv.values()))
                        hm = np.ma.getmaskarray(have)
                        bad = [r for r in covered if hm[r] or hv[r] != wv[r]]
                        if bad:
                            V.append(violation(PROP, "f", "collect_list", f"{name}-differs", f"{key} rows {bad[:5]}: {[hv[r] for r in bad[:5]]} source {[wv[r] for r in bad[:5]]} (order {order})"))
                        canon_out[str(key) + name] = [None if hm[r] else hv[r] for r in range(klen)]
            out[how] = canon_out
        # e. the two forms agree on covered rows
        if isinstance(out.get("list"), dict) and isinstance(out.get("dict"), dict):
            for key in sorted(model):
                kl, kd = out["list"].get(str(key)), out["dict"].get(str(key))
                if kl is None or kd is None:
                    continue
                cov = [r for r in model[key]["flags"] if r not in model[key]["dup"]]
                bad = [r for r in cov if kl[r] != kd[r]]
                if bad:
                    V.append(violation(PROP, "e", "list|dict", "forms-disagree", f"{key} rows {bad[:5]}"))
        outcomes.append(out)
    # the messages themselves are not the collector's to change
    after = [msg_digest(m) for m in msgs]
    if after != before:
        k = next(j for j in range(len(after)) if after[j] != before[j])
        V.append(violation(PROP, "c", "collect", "message-changed-by-collecting", f"message {k} ({msgs[k].stream_id}) was modified while being collected"))
    # g. every delivery order gives the same outcome
    if not any(d["dup"] for d in model.values()):
        for oi, o in enumerate(outcomes[1:], 1):
            if o != outcomes[0]:
                V.append(violation(PROP, "g", "collect", "order-dependent", f"order {scn['orders'][oi]} differs from {scn['orders'][0]}"))
                break
        else:
            if len(outcomes) > 1:
                bump("orders_agree", len(outcomes) - 1)
    return {
        "violations": V,
        "stats": stats,
        "events": len(events),
        "event_digest": digest(events),
        "schedule_digest": digest([tuple(o) for o in scn["orders"]]),
        "end_state": digest(outcomes),
        "nontrivial": len(msgs) > 1 and len(scn["orders"]) > 1,
    }


def candidates(scn):
    if scn["source"] == "stream":
        from sim.shrink import pipeline_candidates

        s2 = dict(scn, frontends=[scn["frontend"]])
        for c in pipeline_candidates(s2):
            c = dict(c)
            c.pop("frontends", None)
            nmsg = sum(len(x["entries"]) for x in c["config"]["contexts"])
            c["orders"] = [[i for i in o if i < nmsg] for o in c["orders"]]
            yield c
        if len(scn["orders"]) > 1:
            for i in range(len(scn["orders"])):
                c = copy.deepcopy(scn)
                del c["orders"][i]
                yield c
        return
    msgs = scn["messages"]
    if len(scn["orders"]) > 1:
        for i in range(len(scn["orders"])):
            c = copy.deepcopy(scn)
            del c["orders"][i]
            yield c
    for i in range(len(msgs)):
        c = copy.deepcopy(scn)
        del c["messages"][i]
        c["orders"] = [[j if j < i else j - 1 for j in o if j != i] for o in c["orders"]]
        yield c
    for i, m in enumerate(msgs):
        if len(m["results"]) > 1:
            for j in range(len(m["results"])):
                c = copy.deepcopy(scn)
                del c["messages"][i]["results"][j]
                yield c
    for ax in ("z", "lat"):
        if scn["table"].get(ax) is not None:
            c = copy.deepcopy(scn)
            c["table"][ax] = None
            if ax == "lat":
                c["table"]["lon"] = None
            yield c
    if scn.get("readonly"):
        c = copy.deepcopy(scn)
        c["readonly"] = False
        yield c
    if scn["env"]["dirty"]["pattern"] != "off":
        c = copy.deepcopy(scn)
        c["env"]["dirty"] = {"pattern": "off", "byte": 0}
        yield c
    for o in scn["orders"]:
        if o != sorted(o):
            c = copy.deepcopy(scn)
            c["orders"] = [sorted(x) if x == o else x for x in c["orders"]]
            yield c
            break


BUDGET = {
    "quick": {"runs": 10000, "seconds": 40, "selfcheck": 3, "crosscheck": 16},
    "thorough": {"runs": 400000, "seconds": 900, "selfcheck": 20, "crosscheck": 60},
}

EVIDENCE = {
    "level": "exploration",
    "rule": (
        "Seeded message histories, each executed in its own forked process: (i) hand-built ContextResults over disjoint contiguous row "
        "layouts (partitions, gaps, all-covering + empty, single) for 1-6 (stream, module, test) keys incl. the same test name in two "
        "modules and two streams, failed calls (no CallResult), multi-result messages, absent axes as size-0 arrays, read-only source "
        "arrays, uint8 / int64 flags; (ii) real ContextResults yielded by pandas / numpy / xarray / netcdf streams over disjoint-window "
        "configs (incl. permuted indexes, non-chronological rows, sub-second and nanosecond clocks with nanosecond window bounds, a first "
        "run + Config.add() + the collected second run). Each history is delivered through a lazy iterator in 2-4 seeded orders to both "
        "collectors under the dirty allocator; messages are re-read afterwards. For (ii) the collected flags are also compared end to end "
        "with the reference window model + direct calls, and the collected keys with the configured tests. Non-trivial: more than one "
        "message and more than one order. Distinct: distinct (digest of all collected outcomes, digest of the delivery orders). "
    ),
    "real": ["ioos_qc.results.collect_results / collect_results_list / collect_results_dict", "ContextResult / CallResult / CollectedResult", "stream front ends (source ii)"],
    "stub": ["hand-built ContextResults (source i)", "dirty allocator wrappers", "delivery scheduler (seeded permutations through a generator)"],
    "assumptions": [
        "windows are disjoint (the property's order-independence clause is stated for disjoint windows only)",
        "uncovered rows are judged on the mask (list) / value UNKNOWN (dict), never on bytes beneath a mask",
        "axes the source does not have are not compared",
    ],
}
