"""C19 - the pandas store writes one aligned, uniquely named column per result.

A PandasStore is built directly on the generator of a (possibly faulty,
partially windowed) stream run and then driven through a seeded *operation
history* on that one object: save(...) with every flag/filter combination and
compute_aggregate(...) in any position.  The dirty allocator makes "empty where
the row was not evaluated" observable (DESIGN.md section 3, C19).
"""
import copy
import re
from importlib import import_module

import numpy as np

from sim import pipeline as pl
from sim import replicas as rp
from sim import seams, workload as wl
from sim.props.c04 import RANK
from sim.util import digest, exc_signature, violation

PROP = "C19"
ODD_SIDS = ("sea.temp", "sal-1", "9lives", "_priv", "a b", "Temp_2", "x%y", "sea_temp", "v1", "m/s\u00b2", "temp\u00e9rature", "NO\u2083", "\u03c3T")
SAFE = re.compile(r"^[A-Za-z][A-Za-z0-9_]*$")
CF = re.compile(r"^[A-Za-z_][A-Za-z0-9_]*$")


def generate(rng, tier="quick"):
    tbl = wl.gen_table(rng, max_n=16 if tier == "quick" else 40, index_kinds=("range", "offset", "perm"))
    # rename streams to ids with characters illegal in CF names
    names = rng.sample(ODD_SIDS, len(tbl["cols"]))
    if rng.chance(0.9):
        # keep sanitised names distinct most of the time (collisions are a listed finding)
        while len({re.sub(r"[^_a-zA-Z0-9]", "_", x) for x in names}) < len(names):
            names = rng.sample(ODD_SIDS, len(tbl["cols"]))
    if tbl.get("dtypes"):
        tbl["dtypes"] = {new: tbl["dtypes"][old] for new, old in zip(names, tbl["cols"]) if old in tbl["dtypes"]}
    tbl["cols"] = {new: v for new, v in zip(names, tbl["cols"].values())}
    fault_kinds = () if rng.chance(0.5) else tuple(rng.subset(("F1", "F2", "F3", "F5", "F6"), 0.4, at_least=1))
    wl_sids = wl.SIDS
    cfg = wl.gen_config(rng, dict(tbl, cols={s: v for s, v in zip(wl_sids, tbl["cols"].values())}), max_ctx=3, max_tests=3, window_layout=rng.pick(("disjoint", "none")), fault_kinds=fault_kinds, max_faults=2, axis_streams_p=0.15)
    ren = dict(zip(wl_sids, names))
    for c in cfg["contexts"]:
        for e in c["entries"]:
            e["sid"] = ren.get(e["sid"], e["sid"])
    fe = rng.pick(("pandas", "pandas", "numpy"))
    tests = sorted({e["test"] for c in cfg["contexts"] for e in c["entries"]})
    fns = sorted({f"{e['module']}.{e['test']}" for c in cfg["contexts"] for e in c["entries"] if e["role"] in ("healthy", "F6")})

    def gen_filter():
        if rng.chance(0.45):
            return None
        pool = [{"s": n} for n in names] + [{"s": t} for t in tests] + [{"fn": f} for f in fns] + [{"s": "absent_name"}]
        return rng.subset(pool, 0.3)

    ops = []
    for _ in range(rng.randint(1, 5)):
        if rng.chance(0.3):
            used_names = {o["name"] for o in ops if o["op"] == "aggregate"}
            ops.append({"op": "aggregate", "name": rng.pick([x for x in ("rollup", "agg 1", "total", "r2", "r3", "r4") if x not in used_names])})
        else:
            ops.append({"op": "save", "write_data": rng.chance(0.5), "write_axes": rng.chance(0.6), "include": gen_filter(), "exclude": gen_filter()})
    if rng.chance(0.3):
        # another store in the same process, with its own axis names, somewhere in the history
        ops.insert(rng.randint(0, len(ops)), {"op": "other_store", "axes": {"t": "timestamp", "z": "depth", "y": "northing", "x": "easting"}})
    saves = [o for o in ops if o["op"] == "save"]
    if saves and rng.chance(0.35):
        ops.append(copy.deepcopy(rng.pick(saves)))  # the same save again, later in the history
    if saves and rng.chance(0.35):
        twin = copy.deepcopy(rng.pick(saves))  # the same selection with the other write_data setting
        twin["write_data"] = not twin["write_data"]
        twin["write_axes"] = True
        ops.append(twin)
    if not any(o["op"] == "save" for o in ops):
        ops.append({"op": "save", "write_data": True, "write_axes": True, "include": None, "exclude": None})
    scn = {"format": 1, "property": PROP, "env": wl.gen_env(rng), "table": tbl, "config": cfg, "frontend": fe, "ops": ops, "group_results": rng.chance(0.2)}
    if rng.chance(0.15):
        # a user-written check given as a Call whose function is a bound method of a configured object; the caller
        # names it again as obj.method in the filters (equal to, but not the same object as, the one in the Call)
        scn["user_bound"] = {"sid": rng.pick(names), "tag": rng.randint(0, 4)}
        for o in ops:
            if o["op"] == "save" and rng.chance(0.6):
                k = rng.pick(("include", "exclude"))
                o[k] = (o[k] or []) + [{"fn": "user_bound"}]
    return scn


def resolve_filter(f):
    if f is None:
        return None
    out = []
    for x in f:
        if x.get("fn") == "user_bound":
            out.append(seams.USER_LIMITS.limits_test)  # a fresh bound-method object every time it is written
            continue
        if "fn" in x:
            m, t = x["fn"].split(".")
            mod = import_module(f"ioos_qc.{m}")
            if hasattr(mod, t):
                out.append(getattr(mod, t))
        else:
            out.append(x["s"])
    return out


def passes(key_fn, include, exclude):
    sid, test, fn = key_fn
    if include is not None and not (fn in include or sid in include or test in include):
        return False
    if exclude is not None and (fn in exclude or sid in exclude or test in exclude):
        return False
    return True


def execute(scn):
    from ioos_qc import qartod
    from ioos_qc.stores import PandasStore

    seams.set_dirty(scn["env"].get("dirty"))
    seams.register_sim_functions()
    del seams.PROBE_LOG[:]
    tbl, cfg = scn["table"], scn["config"]
    a = pl.table_arrays(tbl)
    n = a["n"]
    V = []
    stats = {"probes": {}, "faults": {}, "ops": 0}

    def bump(k, c=1):
        stats["probes"][k] = stats["probes"].get(k, 0) + c

    for c in cfg["contexts"]:
        for e in c["entries"]:
            if e["role"] != "healthy":
                stats["faults"][e["role"]] = stats["faults"].get(e["role"], 0) + 1
    seen = []

    def tee(gen):
        pending = None
        for item in gen:
            if scn.get("group_results"):
                # a user-written stream may hand over all tests of a variable in one ContextResult (results is a list)
                if pending is not None and pending.stream_id == item.stream_id and np.array_equal(pending.subset_indexes, item.subset_indexes):
                    pending = pending._replace(results=list(rp.results_of(pending)) + list(rp.results_of(item)))
                    continue
                if pending is not None:
                    seen.append(pending)
                    yield pending
                pending = item
                continue
            seen.append(item)
            yield item
        if pending is not None:
            seen.append(pending)
            yield pending

    stream, closer = pl.make_stream(scn["frontend"], tbl)
    try:
        config = pl.build_config(cfg)
        if scn.get("user_bound"):
            from functools import partial

            from ioos_qc.config import Call, Context

            ub = scn["user_bound"]
            config.add([Call(stream_id=ub["sid"], call=partial(seams.USER_LIMITS.limits_test, (), tag=ub["tag"]), context=Context())])
            bump("bound_method_test_function")
        store = PandasStore(tee(stream.run(config)))
    except Exception as e:  # noqa: BLE001
        V.append(violation(PROP, "a", "store_init", exc_signature(e), f"PandasStore(...) raised: {e!r}"))
        return done(scn, V, stats, [], [])
    finally:
        if closer:
            closer()
    # model of the collected results, from the messages the store consumed
    model = {}      # (sid, module, test) -> {"flags": {row: flag}, "fn": function}
    order = []
    for item in seen:
        rows = np.flatnonzero(np.asarray(item.subset_indexes))
        for r in rp.results_of(item):
            key = (item.stream_id, r.package, r.test)
            if key not in model:
                model[key] = {"flags": {}, "fn": r.function}
                order.append(key)
            fl = pl.flags_json(r.results)
            for j, row in enumerate(rows):
                model[key]["flags"][int(row)] = fl[j]
    if any(len(m["flags"]) < n for m in model.values()):
        bump("partially_evaluated_result")
    if any(len(rp.results_of(i)) > 1 for i in seen):
        bump("multi_result_context_results")
    san = {}
    for key in order:
        san.setdefault(re.sub(r"[^_a-zA-Z0-9]", "_", ".".join(key)), []).append(key)
    collisions = {k for ks in san.values() if len(ks) > 1 for k in ks[1:]}
    if collisions:
        bump("sanitised_name_collision")
    rollups = []     # (name, flags list)
    events, frames = [], []
    src_axes = {"time": a["time"], "z": a["z"], "lat": a["lat"], "lon": a["lon"]}

    def join_now():
        cols = [model[k]["flags"] for k in order] + [dict(enumerate(f)) for _, f in rollups]
        out = []
        for i in range(n):
            best = None
            for c in cols:
                x = c.get(i)
                if x is None or x == "M" or x not in RANK:
                    continue
                if best is None or RANK[x] > RANK[best]:
                    best = x
            out.append(9 if best is None else best)
        return out

    frame_of = {}
    for oi, op in enumerate(scn["ops"]):
        stats["ops"] += 1
        events.append(("OP", op["op"], digest(op)))
        if op["op"] == "other_store":
            try:
                other = PandasStore(iter(list(seen)), axes=dict(op["axes"]))
                odf = other.save(write_axes=True)
                bump("other_store_with_custom_axes")
                if a["time"] is not None and order and n > 0 and any(len(model[k]["flags"]) for k in order) and "timestamp" not in odf.columns:
                    V.append(violation(PROP, "e", "save", "custom-axis-name-ignored", f"columns {list(odf.columns)}"))
            except Exception as e:  # noqa: BLE001
                V.append(violation(PROP, "a", "other_store", exc_signature(e), f"{e!r}"))
            continue
        if op["op"] == "aggregate":
            try:
                if not order and not rollups:
                    bump("aggregate_of_nothing")
                    want = None
                else:
                    want = join_now()
                store.compute_aggregate(name=op["name"])
            except Exception as e:  # noqa: BLE001
                if order or rollups:
                    V.append(violation(PROP, "g", "compute_aggregate", exc_signature(e), f"{e!r}"))
                continue
            if want is not None:
                rollups.append((op["name"], want))
            continue
        include, exclude = resolve_filter(op["include"]), resolve_filter(op["exclude"])
        try:
            df = store.save(write_data=op["write_data"], write_axes=op["write_axes"], include=include, exclude=exclude)
        except Exception as e:  # noqa: BLE001
            V.append(violation(PROP, "a", "save", exc_signature(e), f"save({op}) raised: {e!r}"))
            continue
        check_frame(scn, op, df, n, a, model, order, rollups, include, exclude, collisions, src_axes, V, bump, qartod)
        frames.append(frame_json(df))
        frame_of[oi] = frames[-1]
    # h. save is repeatable: identical saves (with the same aggregates before them) give identical frames
    sig_seen = {}
    axes_seen = {}
    agg_count = 0
    for oi, op in enumerate(scn["ops"]):
        if op["op"] == "aggregate":
            agg_count += 1
            continue
        if op["op"] != "save" or oi not in frame_of:
            continue
        if op["write_axes"] and n > 0:
            k2 = (digest({x: op[x] for x in ("include", "exclude")}), agg_count)
            axes_now = {c: v for c, v in frame_of[oi].items() if c.split(":", 1)[1] in ("time", "z", "lat", "lon")}
            axes_now = {c.split(":", 1)[1]: v for c, v in axes_now.items()}
            if k2 in axes_seen and axes_seen[k2][0] != op["write_data"] and axes_seen[k2][1] != axes_now:
                diff = sorted(c for c in set(axes_now) | set(axes_seen[k2][1]) if axes_now.get(c) != axes_seen[k2][1].get(c))
                V.append(violation(PROP, "e", "save", "axis-columns-depend-on-write_data", f"{diff}: {op}"))
            elif k2 in axes_seen and axes_seen[k2][0] != op["write_data"]:
                bump("axes_same_with_and_without_data")
            axes_seen.setdefault(k2, (op["write_data"], axes_now))
        k = (digest(op), agg_count)
        if k in sig_seen and sig_seen[k] != frame_of[oi]:
            V.append(violation(PROP, "h", "save", "save-not-repeatable", f"{op}"))
        elif k in sig_seen:
            bump("repeated_save_same")
        sig_seen[k] = frame_of[oi]
    return done(scn, V, stats, events, frames)


def frame_json(df):
    out = {}
    for i, c in enumerate(df.columns):
        col = df.iloc[:, i]
        if col.dtype.kind == "M":
            vals = seams.times_to_json(col.to_numpy())
        else:
            vals = [None if (isinstance(x, float) and x != x) or x is None else (float(x) if isinstance(x, (int, float, np.number)) else str(x)) for x in col.tolist()]
        out[f"{i}:{c}"] = vals
    return out


def check_frame(scn, op, df, n, a, model, order, rollups, include, exclude, collisions, src_axes, V, bump, qartod):
    cols = list(df.columns)
    # a. rows
    if len(df) != n and len(cols) > 0:
        V.append(violation(PROP, "a", "save", "row-count", f"{len(df)} rows for {n} input rows"))
        return
    if len(cols) != len(set(cols)):
        V.append(violation(PROP, "c", "save", "duplicate-column-names", f"{cols}"))
        return
    if len(df) and list(df.index) != list(range(len(df))):
        bump("non_default_frame_index")
    expected = []
    for key in order:
        if passes((key[0], key[2], model[key]["fn"]), include, exclude):
            expected.append((key, model[key]["flags"]))
    rnames = set()
    for name, flags in rollups:
        if name in rnames:
            bump("same_rollup_name_twice")  # the caller's own name clash: nothing is promised
            continue
        rnames.add(name)
        if passes(("", name, qartod.aggregate), include, exclude):
            expected.append((("", "qartod", name), dict(enumerate(flags))))
    axis_names = {"time", "z", "lat", "lon"}
    data_names = {k[0] for k in model}
    qc_cols = [c for c in cols if c not in axis_names and c not in data_names]
    used = set()
    for key, flags in expected:
        sid, module, test = key
        parts = [p for p in (sid, module, test) if p]
        plain = "_".join(parts)
        safe_name = re.sub(r"[^_a-zA-Z0-9]", "_", ".".join(parts))
        if all(SAFE.match(p) for p in parts):
            cands = [plain]
        else:
            # only the property's constraints: CF-safe, and recognisably derived from the three parts
            cands = [c for c in qc_cols if c not in used and CF.match(c) and c.endswith(safe_name)]
        name = next((c for c in cands if c in cols and c not in used), None)
        if name is None:
            if key in collisions:
                V.append(violation(PROP, "b", "save", "sanitised-name-collision", f"{key}: column missing, its CF-safe name is taken by another result"))
            else:
                V.append(violation(PROP, "b", "save", "column-missing", f"{key} expected as {cands[:1] or safe_name}; columns {cols}; op {op}"))
            continue
        used.add(name)
        if not CF.match(name) or name[0].isdigit():
            V.append(violation(PROP, "c", "save", "name-not-cf-safe", name))
        vals = df[name].tolist()
        for i in range(n):
            want = flags.get(i)
            got = vals[i]
            isnull = got is None or (isinstance(got, float) and got != got) or got is np.ma.masked
            if want is None or want == "M":
                if not isnull:
                    V.append(violation(PROP, "d", "save", "value-on-unevaluated-row", f"{name} row {i}: {got}"))
                    break
            elif isnull or float(got) != float(want):
                V.append(violation(PROP, "d", "save", "wrong-flag" if not isnull else "flag-missing", f"{name} row {i}: {got} expected {want}"))
                break
    extra = [c for c in qc_cols if c not in used]
    if extra:
        V.append(violation(PROP, "b", "save", "unexpected-column", f"{extra}; op {op}"))
    # e. axes / data
    anything = bool(expected) or bool(order) or bool(rollups)
    for ax, src in src_axes.items():
        if ax in cols:
            if not op["write_axes"]:
                if ax in data_names and op["write_data"]:
                    continue  # a stream that is called like an axis: this is its data column
                V.append(violation(PROP, "e", "save", "axis-written-without-write_axes", ax))
                continue
            if src is None:
                continue
            got = seams.anyarray_to_json(df[ax].to_numpy())
            got = next(iter(got.values()))
            want = next(iter(seams.anyarray_to_json(src).values()))
            bad = [i for i in range(n) if got[i] is not None and got[i] != want[i]]
            if bad:
                V.append(violation(PROP, "e", "save", f"axis-{ax}-wrong", f"rows {bad[:5]}: {[got[i] for i in bad[:5]]} source {[want[i] for i in bad[:5]]}"))
            # whichever result supplies the axis, it has it on the rows it evaluated: so at least on the rows
            # that *every* collected result evaluated the column cannot be empty
            common = set(range(n))
            for k in order:
                common &= set(model[k]["flags"])
            gone = [i for i in sorted(common) if got[i] is None and want[i] is not None]
            if order and gone and ax not in data_names:
                V.append(violation(PROP, "e", "save", f"axis-{ax}-empty-on-evaluated-rows", f"rows {gone[:5]}"))
        elif op["write_axes"] and src is not None and order and n > 0 and any(len(model[k]["flags"]) for k in order):
            V.append(violation(PROP, "e", "save", f"axis-{ax}-missing", f"columns {cols}"))
    for sid in sorted(data_names):
        kept = [k for k, _ in expected if k[0] == sid]
        if sid in src_axes and op["write_axes"]:
            continue  # the column of that name is the axis column (same source values), checked above
        if sid in cols:
            if not op["write_data"]:
                V.append(violation(PROP, "e", "save", "data-written-without-write_data", sid))
                continue
            got = seams.floats_to_json(np.ma.masked_invalid(np.asarray(df[sid].to_numpy(), dtype="float64")))
            want = seams.floats_to_json(a["cols_ext"][sid])
            bad = [i for i in range(n) if got[i] is not None and got[i] != want[i]]
            if bad:
                V.append(violation(PROP, "e", "save", "data-wrong", f"{sid} rows {bad[:5]}"))
            # whichever kept result of this stream supplies the data column, it has the data on the rows it evaluated
            common = set(range(n))
            for k in kept:
                common &= set(model[k]["flags"]) if k in model else set()
            gone = [i for i in sorted(common) if got[i] is None and want[i] is not None]
            if kept and gone:
                V.append(violation(PROP, "e", "save", "data-empty-on-evaluated-rows", f"{sid} rows {gone[:5]}"))
        elif op["write_data"] and kept:
            V.append(violation(PROP, "e", "save", "data-missing", f"{sid}; columns {cols}"))


def done(scn, V, stats, events, frames):
    return {
        "violations": V,
        "stats": stats,
        "events": len(events),
        "event_digest": digest(events),
        "schedule_digest": digest([(o["op"], digest(o)) for o in scn["ops"]]),
        "end_state": digest(frames),
        "nontrivial": len(scn["ops"]) > 1,
    }


def candidates(scn):
    from sim.shrink import pipeline_candidates

    s2 = dict(scn, frontends=[scn["frontend"]])
    for c in pipeline_candidates(s2):
        c = dict(c)
        c.pop("frontends", None)
        yield c
    for i, op in enumerate(scn["ops"]):
        if op["op"] == "save":
            for k in ("include", "exclude"):
                if op.get(k) is not None:
                    c = copy.deepcopy(scn)
                    c["ops"][i][k] = None
                    yield c
                    if len(op[k]) > 1:
                        for j in range(len(op[k])):
                            c = copy.deepcopy(scn)
                            del c["ops"][i][k][j]
                            yield c
            for k in ("write_data", "write_axes"):
                if op.get(k):
                    c = copy.deepcopy(scn)
                    c["ops"][i][k] = False
                    yield c


BUDGET = {
    "quick": {"runs": 7000, "seconds": 45, "selfcheck": 3, "crosscheck": 12},
    "thorough": {"runs": 200000, "seconds": 1200, "selfcheck": 20, "crosscheck": 60},
}

EVIDENCE = {
    "level": "exploration",
    "rule": (
        "Seeded scenarios, each in its own forked process: a table whose stream ids contain characters illegal in CF names / leading "
        "digits / leading underscores / non-ASCII letters and digits (plus float32 / int32 / int64 columns and, sometimes, a stream named "
        "like an axis), a config of 1-3 contexts (disjoint or absent windows) with 0-2 fault entries, run through PandasStream or "
        "NumpyStream straight into PandasStore - one test per ContextResult, or all tests of a variable grouped into one; then a seeded "
        "history of 1-7 operations on that one store: save with every write_data/write_axes combination and include/exclude lists over "
        "{stream ids, test names, function objects, absent names}, repeated saves, the same selection with the other write_data setting, "
        "compute_aggregate under several names in any position, a second store with its own axis names. Non-trivial: history of at least "
        "two operations. Distinct: distinct (digest of all frames, digest of the operation history). "
    ),
    "real": ["ioos_qc.stores.PandasStore (save, compute_aggregate)", "ioos_qc.results.collect_results", "ioos_qc.utils.cf_safe_name", "PandasStream / NumpyStream / Config", "pandas"],
    "stub": ["dirty allocator wrappers", "fault / probe QC functions", "operation-history driver"],
    "assumptions": [
        "the expected column name is asserted exactly only when stream id, module and test are already CF-safe (letter first); otherwise only the property's constraints are checked (CF-safe, ends with the sanitised <stream>_<module>_<test>)",
        "axis / data columns: presence follows write_axes / write_data, non-null values equal the source; which result supplies them is not constrained",
        "stream ids whose sanitised names collide make two results claim one column name - listed as a known finding, generated rarely",
    ],
}
