"""C04 - aggregation reports, per point, the worst flag any test produced.

The aggregator is a merge that receives flag vectors as *messages*: the
scheduler delivers a base multiset in seeded permutations, with duplicates and
regrouped (aggregate of aggregates), through qartod_compare, aggregate and
PandasStore.compute_aggregate.  Masked entries carry adversarial bytes beneath
the mask (explicitly for synthetic vectors, through the dirty allocator for the
collector's masked_all buffers) (DESIGN.md section 3, C04).
"""
import copy

import numpy as np

from sim import seams, workload as wl
from sim.util import digest, exc_signature, violation

PROP = "C04"
RANK = {9: 0, 2: 1, 1: 2, 3: 3, 4: 4}  # keys are compared with ==, so 260 or -252 are simply not flags
NONFLAGS = (0, 5, 7, 8, 10, 100)


def generate(rng, tier="quick"):
    n = rng.weighted([(0, 1), (1, 2), (2, 2), (rng.randint(3, 12), 10), (rng.randint(13, 30), 3), (rng.randint(990, 1100), 0.25)])
    k = rng.randint(1, 6)
    if rng.chance(0.03):
        k = rng.randint(65, 140)  # a roll-up over very many tests (chunked / blocked code paths)
        n = min(n, 12)
    vectors = []
    all_uint8 = k > 64 and rng.chance(0.7)
    for _ in range(k):
        dtype = "uint8" if all_uint8 else rng.weighted([("uint8", 6), ("int64", 2), ("float64", 2), ("int8", 1), ("uint16", 1), ("float32", 1)])
        style = rng.weighted([("flags", 5), ("mostly_good", 2), ("with_nonflags", 3)])
        vals, mask = [], []
        masked = rng.chance(0.5)
        for _ in range(n):
            if style == "mostly_good":
                v = 1 if rng.chance(0.7) else rng.pick(seams.FLAGSET)
            elif style == "with_nonflags" and rng.chance(0.3):
                v = rng.pick(NONFLAGS)
                if dtype in ("int64", "uint16") and rng.chance(0.5):
                    v = rng.pick((257, 258, 259, 260, 265, 513, 1028))  # not flags, whatever they are modulo 256
                elif dtype == "int64" and rng.chance(0.3):
                    v = rng.pick((-252, -255, -247, 2**31 + 4))
                if dtype in ("float64", "float32") and rng.chance(0.4):
                    v = None  # NaN
                    if rng.chance(0.3):
                        v = 3.5
            else:
                v = rng.pick(seams.FLAGSET)
            vals.append(v)
            mask.append(1 if masked and rng.chance(0.35) else 0)
        vectors.append({"dtype": dtype, "values": vals, "mask": mask if masked else None, "under": rng.pick((4, 4, 3, 9, 1, 0, 255)), "hard": masked and rng.chance(0.2)})
    deliveries = []
    for _ in range(rng.randint(2, 5)):
        seq = list(range(k))
        rng.shuffle(seq)
        if k > 1 and rng.chance(0.4):
            # only part of the multiset this time: a later roll-up may have nothing left where an earlier one had a flag
            seq = seq[: rng.randint(1, k - 1)]
        for _ in range(rng.weighted([(0, 5), (1, 3), (3, 2)])):
            seq.insert(rng.randint(0, len(seq)), rng.randrange(k))
        via = rng.weighted([("qartod_compare", 4), ("aggregate", 3), ("store", 3)])
        groups = None
        if via != "store" and len(seq) > 1 and rng.chance(0.4):
            cuts = sorted(rng.sample(range(1, len(seq)), min(len(seq) - 1, rng.randint(1, 2))))
            groups, prev = [], 0
            for c in cuts + [len(seq)]:
                groups.append(seq[prev:c])
                prev = c
        d = {"via": via, "seq": seq, "groups": groups, "packages": [rng.pick(("qartod", "qartod", "argo", "axds")) for _ in seq]}
        if via == "store":
            # stream ids / test names per message; some pairs differ only in characters that CF-safe naming replaces
            d["sids"] = [rng.pick(("v", "v", "v.1", "v_1", "v 1", 0, 7)) for _ in seq]  # (a frame built from a matrix has integer column labels)
            d["tests"] = [rng.pick((f"t{j}", f"t{j}", "t.x", "t_x", "t-x")) for j in range(len(seq))]
        deliveries.append(d)
    return {"format": 1, "property": PROP, "env": wl.gen_env(rng), "n": n, "vectors": vectors, "deliveries": deliveries}


def build_vector(v):
    n = len(v["values"])
    data = np.array([np.nan if x is None else x for x in v["values"]], dtype="float64").astype(v["dtype"]) if n else np.array([], dtype=v["dtype"])
    if v.get("mask") is None:
        return data
    mask = np.array(v["mask"], dtype=bool)
    data = data.copy()
    data[mask] = v.get("under", 4)  # adversarial byte beneath the mask
    out = np.ma.MaskedArray(data, mask=mask)
    if v.get("hard"):
        out.harden_mask()  # a caller may protect its masked entries against being overwritten
    return out


def model_join(vectors, n):
    out = [9] * n
    for i in range(n):
        best = None
        for v in vectors:
            m = v.get("mask")
            if m is not None and m[i]:
                continue
            x = v["values"][i]
            if x is None or x not in RANK:
                continue
            if best is None or RANK[x] > RANK[best]:
                best = x
        out[i] = 9 if best is None else best
    return out


def deliver(scn, d, vecs):
    from ioos_qc import qartod
    from ioos_qc.results import CallResult, CollectedResult, ContextResult
    from ioos_qc.stores import PandasStore

    n = scn["n"]

    def via_fn(arrs):
        if d["via"] == "aggregate":
            pk = d.get("packages") or ["qartod"]
            objs = [CollectedResult(stream_id="v", package=pk[j % len(pk)], test=f"t{j}", function=qartod.spike_test, results=a) for j, a in enumerate(arrs)]
            return qartod.aggregate(objs)
        return qartod.qartod_compare(arrs)

    if d["via"] == "store":
        msgs = []
        keys = set()
        for j, idx in enumerate(d["seq"]):
            a = vecs[idx]
            mask = ~np.ma.getmaskarray(a)
            flags = np.asarray(np.ma.getdata(a))[mask]
            sid = (d.get("sids") or ["v"] * len(d["seq"]))[j]
            test = (d.get("tests") or [f"t{k}" for k in range(len(d["seq"]))])[j]
            if (sid, test) in keys:  # one collected result per (stream, test): keep the keys distinct
                test = f"{test}{j}"
            keys.add((sid, test))
            msgs.append(
                ContextResult(
                    stream_id=sid,
                    results=[CallResult((d.get("packages") or ["qartod"])[j % len(d.get("packages") or ["qartod"])], test, qartod.spike_test, flags)],
                    subset_indexes=mask,
                    data=np.zeros(int(mask.sum())),
                    tinp=np.array([], dtype="datetime64[ns]"),
                    zinp=np.array([]),
                    lat=np.array([]),
                    lon=np.array([]),
                ),
            )
        store = PandasStore(iter(msgs))
        store.compute_aggregate()
        roll = store.collected_results[-1].results
        df = store.save(write_axes=False)
        col = df["qartod_rollup"].to_numpy() if "qartod_rollup" in df else None
        return roll, col
    if d.get("groups"):
        partial = [via_fn([vecs[i] for i in g]) for g in d["groups"]]
        return via_fn(partial), None
    return via_fn([vecs[i] for i in d["seq"]]), None


def execute(scn):
    seams.set_dirty(scn["env"].get("dirty"))
    n = scn["n"]
    V = []
    stats = {"probes": {}, "faults": {}, "deliveries": 0}

    def bump(k, c=1):
        stats["probes"][k] = stats["probes"].get(k, 0) + c

    vecs = [build_vector(v) for v in scn["vectors"]]
    for v in scn["vectors"]:
        if v.get("mask") and any(v["mask"]) and v.get("under") == 4:
            bump("FAIL_byte_under_mask")
        if any(x is None or x not in RANK for x in v["values"]):
            bump("nonflag_values")
    outcomes = []
    events = []
    for d in scn["deliveries"]:
        stats["deliveries"] += 1
        used = [scn["vectors"][i] for i in d["seq"]]
        want = model_join(used, n)
        events.append(("DELIVER", d["via"], tuple(d["seq"]), str(d.get("groups"))))
        if len(d["seq"]) != len(set(d["seq"])):
            bump("duplicated_vectors")
        if d.get("groups"):
            bump("regrouped")
        try:
            res, col = deliver(scn, d, vecs)
        except Exception as e:  # noqa: BLE001
            V.append(violation(PROP, "a", d["via"], exc_signature(e), f"seq {d['seq']}: {e!r}"))
            outcomes.append("raised")
            continue
        got = np.asarray(np.ma.getdata(res)).tolist()
        if np.shape(res) != (n,):
            V.append(violation(PROP, "b", d["via"], "length", f"shape {np.shape(res)} for n={n}"))
        elif np.ma.getmaskarray(res).any():
            V.append(violation(PROP, "b", d["via"], "masked-result", f"{np.ma.getmaskarray(res).astype(int).tolist()}"))
        elif [int(x) for x in got] != want:
            bad = [i for i in range(n) if int(got[i]) != want[i]]
            i = bad[0]
            col_in = [("M" if (v.get("mask") and v["mask"][i]) else v["values"][i]) for v in used]
            if want[i] in RANK and int(got[i]) in RANK:
                sig = "better-than-worst" if RANK[int(got[i])] < RANK[want[i]] else "worse-than-worst"
            else:
                sig = "not-a-flag"
            V.append(violation(PROP, "a", d["via"], sig, f"position {i}: got {got[i]} want {want[i]} from {col_in} (seq {d['seq']}, groups {d.get('groups')})"))
        if col is not None:
            cj = [None if x != x else int(x) for x in col.tolist()]
            if cj != want:
                V.append(violation(PROP, "d", "store", "rollup-column-differs", f"{cj} want {want}"))
        outcomes.append(got)
    # c. convergence: deliveries of the same multiset support agree
    by_support = {}
    for d, o in zip(scn["deliveries"], outcomes):
        by_support.setdefault(tuple(sorted(set(d["seq"]))), []).append(o)
    for sup, outs in sorted(by_support.items()):
        if any(o != outs[0] for o in outs[1:]):
            V.append(violation(PROP, "c", "aggregate", "order-or-multiplicity-dependent", f"support {sup}: {outs}"))
        elif len(outs) > 1:
            bump("deliveries_agree", len(outs) - 1)
    return {
        "violations": V,
        "stats": stats,
        "events": len(events),
        "event_digest": digest(events),
        "schedule_digest": digest([(d["via"], d["seq"], d.get("groups")) for d in scn["deliveries"]]),
        "end_state": digest(outcomes),
        "nontrivial": n > 0 and len(scn["vectors"]) > 1,
    }


def candidates(scn):
    if len(scn["deliveries"]) > 1:
        for i in range(len(scn["deliveries"])):
            c = copy.deepcopy(scn)
            del c["deliveries"][i]
            yield c
    k = len(scn["vectors"])
    if k > 1:
        for i in range(k):
            c = copy.deepcopy(scn)
            del c["vectors"][i]
            for d in c["deliveries"]:
                d["seq"] = [j if j < i else j - 1 for j in d["seq"] if j != i]
                if d.get("groups"):
                    d["groups"] = [[j if j < i else j - 1 for j in g if j != i] for g in d["groups"]]
                    d["groups"] = [g for g in d["groups"] if g]
            c["deliveries"] = [d for d in c["deliveries"] if d["seq"]]
            if c["deliveries"]:
                yield c
    for di, d in enumerate(scn["deliveries"]):
        if d.get("groups"):
            c = copy.deepcopy(scn)
            c["deliveries"][di]["groups"] = None
            yield c
        if len(d["seq"]) > 1:
            for j in range(len(d["seq"])):
                c = copy.deepcopy(scn)
                c["deliveries"][di]["seq"] = d["seq"][:j] + d["seq"][j + 1 :]
                c["deliveries"][di]["groups"] = None
                yield c
    n = scn["n"]
    if n > 16:
        for lo, hi in ((0, n // 2), (n // 2, n)):
            c = copy.deepcopy(scn)
            c["n"] = n - (hi - lo)
            for v in c["vectors"]:
                v["values"] = v["values"][:lo] + v["values"][hi:]
                if v.get("mask") is not None:
                    v["mask"] = v["mask"][:lo] + v["mask"][hi:]
            yield c
    if 1 < n <= 64:
        for i in range(n):
            c = copy.deepcopy(scn)
            c["n"] = n - 1
            for v in c["vectors"]:
                del v["values"][i]
                if v.get("mask") is not None:
                    del v["mask"][i]
            yield c
    if scn["env"]["dirty"]["pattern"] != "off":
        c = copy.deepcopy(scn)
        c["env"]["dirty"] = {"pattern": "off", "byte": 0}
        yield c


BUDGET = {
    "quick": {"runs": 12000, "seconds": 40, "selfcheck": 3, "crosscheck": 16},
    "thorough": {"runs": 600000, "seconds": 900, "selfcheck": 20, "crosscheck": 60},
}

EVIDENCE = {
    "level": "exploration",
    "rule": (
        "Seeded base multisets of 1-6 (3 %: 65-140) flag vectors, each scenario in its own forked process: n 0-30 (now and then ~1000); "
        "uint8 / int8 / uint16 / int64 / float32 / float64; values over {1,2,3,4,9} plus non-flags {0,5,7,8,10,100,NaN,3.5} and, for wide "
        "integers, values that alias a flag modulo 256 (257..260, 513, 1028, -252); optional masks with an adversarial byte - often FAIL - "
        "stored beneath every masked entry. Each base is delivered 2-5 times as seeded permutations, sub-multisets, duplications and "
        "regroupings (aggregate of aggregates) through qartod_compare, aggregate (results labelled qartod / argo / axds) and "
        "PandasStore.compute_aggregate (masked_all-backed collector buffers under the dirty allocator; stream ids and test names that "
        "collide after CF-sanitising). Non-trivial: n>0 and at least two vectors. Distinct: distinct (digest of all aggregates, digest of "
        "the delivery plan). "
    ),
    "real": ["ioos_qc.qartod.qartod_compare", "ioos_qc.qartod.aggregate", "ioos_qc.stores.PandasStore.compute_aggregate / save", "ioos_qc.results.collect_results (store path)"],
    "stub": ["hand-built flag vectors / ContextResults", "dirty allocator wrappers", "delivery scheduler (seeded permutations, duplicates, partitions)"],
    "assumptions": ["vectors are 1-d numpy / masked arrays of equal length (what qartod_compare documents and asserts)"],
}
