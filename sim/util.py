"""Small shared helpers: canonical digests, exception signatures, violations."""
import hashlib
import json
import linecache
import os
import traceback


def canon(obj) -> str:
    return json.dumps(obj, sort_keys=True, separators=(",", ":"), default=str)


def digest(obj) -> str:
    return hashlib.sha256(canon(obj).encode()).hexdigest()[:16]


def exc_signature(e: BaseException) -> str:
    """exception class + innermost ioos_qc frame as file:function:source text.

    No line numbers (they move under unrelated edits), no ids, no messages with
    addresses."""
    frames = traceback.extract_tb(e.__traceback__)
    pick = None
    for fr in frames:
        fn = fr.filename.replace("\\", "/")
        if "/ioos_qc/" in fn:
            pick = fr
    if pick is None:
        return f"{type(e).__name__}@<outside ioos_qc>"
    text = (pick.line or linecache.getline(pick.filename, pick.lineno)).strip()
    text = " ".join(text.split())[:80]
    return f"{type(e).__name__}@{os.path.basename(pick.filename)}:{pick.name}:{text}"


def violation(prop, clause, component, signature, detail=""):
    return {
        "property": prop,
        "clause": clause,
        "component": component,
        "signature": signature,
        "detail": str(detail)[:400],
    }


def vkey(v):
    return (v["property"], v["clause"], v["component"], v["signature"])
