"""Scenario document -> real ioos_qc objects, and the reference models that
read the same document (DESIGN.md 2.2, 2.5).

Scenario fragments handled here
-------------------------------
table  = {"times":[epoch s], "cols":{sid:[float|None]}, "z":[..]|None, "lat":..,
          "lon":.., "index":{"kind":"range|offset|datetime|perm|str","perm":[..]}}
config = {"contexts":[{"window":{"starting":epoch|None,"ending":epoch|None}|None,
                       "entries":[{"sid","module","test","params","role"}]}],
          "window_form":"iso|datetime|timestamp|dt64",
          "carrier":"dict|odict|yaml|json|stringio|yaml_path|json_path",
          "layout":"contexts|streams"}
"""
import io
import json
import os
from collections import OrderedDict
from datetime import datetime, timezone
from importlib import import_module
from inspect import signature

import numpy as np
import pandas as pd
import xarray as xr

from sim import seams

KNOWN_MODULES = ("qartod", "argo", "axds")
AXES = ("tinp", "zinp", "lat", "lon")


# --------------------------------------------------------------------------
# table
# --------------------------------------------------------------------------
def col(values):
    return np.array([np.nan if v is None else v for v in values], dtype="float64")


def build_time(tbl):
    """datetime64[ns] axis: whole seconds, optionally plus quarter-second fractions ("frac_ms"), with NaT
    at the rows listed in "nat" (a record whose clock value is missing)."""
    t = np.array(tbl["times"], dtype="int64").astype("datetime64[s]").astype("datetime64[ns]")
    if tbl.get("frac_ms"):
        t = t + np.array(tbl["frac_ms"], dtype="int64").astype("timedelta64[ms]")
    if tbl.get("frac_ns"):
        t = t + np.array(tbl["frac_ns"], dtype="int64").astype("timedelta64[ns]")
    if tbl.get("nat"):
        t[np.array(tbl["nat"], dtype=int)] = np.datetime64("NaT")
    return t


def row_times(tbl):
    """Row times as the reference model sees them: integer nanoseconds since the epoch, None for NaT."""
    out = []
    nat = set(tbl.get("nat") or [])
    fms = tbl.get("frac_ms")
    fns = tbl.get("frac_ns")
    for i, t in enumerate(tbl["times"]):
        if i in nat:
            out.append(None)
        else:
            out.append(int(t) * 10**9 + (fms[i] * 10**6 if fms else 0) + (fns[i] if fns else 0))
    return out


def bound_ns(window, which):
    """A window bound in integer nanoseconds (None = open)."""
    if not window or window.get(which) is None:
        return None
    return int(window[which]) * 10**9 + int(window.get(which + "_ns", 0))


def typed_col(values, dtype):
    if dtype == "int64":
        return np.array([int(v) for v in values], dtype="int64")  # straight from the integers, never through float64
    return col(values).astype(dtype)


def table_arrays(tbl):
    out = {
        # "no_time": the source has no time axis at all (tbl["times"] is then only the harness' row count)
        "time": build_time(tbl) if tbl.get("times") is not None and not tbl.get("no_time") else None,
        "cols": OrderedDict((k, typed_col(v, (tbl.get("dtypes") or {}).get(k, "float64"))) for k, v in tbl["cols"].items()),
    }
    for ax in ("z", "lat", "lon"):
        out[ax] = col(tbl[ax]) if tbl.get(ax) is not None else None
    out["n"] = len(next(iter(tbl["cols"].values()))) if tbl["cols"] else len(tbl.get("times") or [])
    # every column a config may name as a stream id: the data columns and, under their column names, z/lat/lon
    ext = OrderedDict(out["cols"])
    nm = axis_names(tbl)
    for ax in ("z", "lat", "lon"):
        if out[ax] is not None and nm[ax] not in ext:
            ext[nm[ax]] = out[ax]
    if tbl.get("side"):
        ext[tbl["side"]["name"]] = col(tbl["side"]["values"])  # (xarray only) a variable on a dimension of its own
    out["cols_ext"] = ext
    return out


def stream_id_universe(tbl):
    """Stream ids the source can serve: data columns plus the axis columns z / lat / lon."""
    nm = axis_names(tbl)
    side = {tbl["side"]["name"]} if tbl.get("side") else set()
    return set(tbl["cols"]) | {nm[ax] for ax in ("z", "lat", "lon") if tbl.get(ax) is not None} | side


def make_index(tbl, n):
    ix = tbl.get("index") or {"kind": "range"}
    kind = ix["kind"]
    if kind == "range":
        return None
    if kind == "offset":
        return pd.RangeIndex(ix.get("start", 100), ix.get("start", 100) + n)
    if kind == "datetime":
        return pd.DatetimeIndex(build_time(tbl))
    if kind == "perm":
        return pd.Index([int(p) for p in ix["perm"][:n]], dtype="int64")
    if kind == "str":
        return pd.Index([f"r{p}" for p in range(n)], dtype="object")
    raise ValueError(kind)


def axis_names(tbl):
    """Column / variable names of the axes (streams accept non-default names)."""
    nm = {"time": "time", "z": "z", "lat": "lat", "lon": "lon"}
    nm.update(tbl.get("names") or {})
    return nm


def stream_kwargs(tbl):
    nm = axis_names(tbl)
    return {k: v for k, v in nm.items() if (tbl.get("names") or {}).get(k)}


def make_df(tbl):
    a = table_arrays(tbl)
    nm = axis_names(tbl)
    data = OrderedDict()
    if a["time"] is not None:
        data[nm["time"]] = a["time"]
    for ax in ("z", "lat", "lon"):
        if a[ax] is not None:
            data[nm[ax]] = a[ax]
    for k, v in a["cols"].items():
        data[k] = v
    df = pd.DataFrame(data)
    idx = make_index(tbl, a["n"])
    if idx is not None:
        df.index = idx
    return df


def make_xr(tbl):
    a = table_arrays(tbl)
    nm = axis_names(tbl)
    tn = nm["time"]
    dv = OrderedDict()
    for k, v in a["cols"].items():
        dv[k] = (tn, v.copy())
    for ax in ("z", "lat", "lon"):
        if a[ax] is not None:
            dv[nm[ax]] = (tn, a[ax].copy())
    if a["time"] is None:
        return xr.Dataset(OrderedDict((k, ("obs", v[1])) for k, v in dv.items()))
    if tbl.get("side"):
        # a variable on a dimension of its own (another length, no time / depth / position coordinate)
        dv[tbl["side"]["name"]] = ("obs2", col(tbl["side"]["values"]))
    if tbl.get("xr_time", "coord") == "coord":
        return xr.Dataset(dv, coords={tn: a["time"].copy()})
    # time is a plain data variable on an anonymous dimension
    dv2 = OrderedDict((k, ("obs", v[1])) for k, v in dv.items())
    dv2[tn] = ("obs", a["time"].copy())
    return xr.Dataset(dv2)


_NC_COUNTER = {"n": 0}


def write_nc(tbl):
    ds = make_xr(tbl)
    _NC_COUNTER["n"] += 1
    path = os.path.join(seams.scratch_dir(), f"table{_NC_COUNTER['n']}.nc")
    enc = {axis_names(tbl)["time"]: {"units": "seconds since 1970-01-01 00:00:00", "dtype": "float64", "calendar": "proleptic_gregorian"}}
    if tbl.get("no_time"):
        enc = {}
    ds.to_netcdf(path, engine="scipy", format="NETCDF3_64BIT", encoding=enc)
    ds.close()
    return path


# --------------------------------------------------------------------------
# windows
# --------------------------------------------------------------------------
def iso(epoch):
    return datetime.fromtimestamp(epoch, tz=timezone.utc).replace(tzinfo=None).isoformat()


def window_value(epoch, form, ns=0):
    if epoch is None:
        return None
    if ns:
        # a bound with a sub-second part down to the nanosecond: only spellings that can hold it
        if form == "iso":
            return f"{iso(epoch)}.{int(ns):09d}"
        if form == "dt64":
            return np.datetime64(int(epoch) * 10**9 + int(ns), "ns")
        return pd.Timestamp(int(epoch) * 10**9 + int(ns))
    if form == "iso":
        return iso(epoch)
    if form == "datetime":
        return datetime.fromtimestamp(epoch, tz=timezone.utc).replace(tzinfo=None)
    if form == "timestamp":
        return pd.Timestamp(epoch, unit="s")
    if form == "dt64":
        return np.datetime64(int(epoch), "s")
    raise ValueError(form)


def model_rows(window, times):
    """Reference window membership: starting <= t < ending, absent bound open.
    ``times`` are integer nanoseconds (``row_times``); a row without a time (None) satisfies no bound."""
    lo, hi = bound_ns(window, "starting"), bound_ns(window, "ending")
    out = []
    for t in times:
        if t is None:
            out.append(lo is None and hi is None)
        else:
            out.append((lo is None or t >= lo) and (hi is None or t < hi))
    return np.array(out, dtype=bool)


# --------------------------------------------------------------------------
# config
# --------------------------------------------------------------------------
def nested_streams(entries, form="plain"):
    out = OrderedDict()
    for e in entries:
        out.setdefault(e["sid"], OrderedDict()).setdefault(e["module"], OrderedDict())[e["test"]] = reform(
            json.loads(json.dumps(e["params"])), form, top=True,
        )
    return out


def special_object(spec):
    """Objects a Python-built config may legally hold but that no text format can express."""
    kind = spec["__obj__"]
    if kind == "dict_values":
        return dict(enumerate(spec.get("of", []))).values()
    if kind == "generator":
        return (x for x in spec.get("of", []))
    if kind == "lock":
        import threading

        return threading.Lock()
    raise ValueError(kind)


def reform(v, form, top=False):
    """The same parameter values in another Python spelling (only for in-memory carriers):
    'tuples' - sequences as tuples; 'numpy' - numbers as numpy scalars."""
    if isinstance(v, dict) and "__obj__" in v:
        return f"<{v['__obj__']}>" if form == "text" else special_object(v)
    if form in ("plain", "text") and not isinstance(v, (dict, list)):
        return v
    if isinstance(v, dict):
        return {k: reform(x, form) for k, x in v.items()}
    if isinstance(v, list):
        inner = [reform(x, form) for x in v]
        # a list of dicts (climatology members) stays a list; spans become tuples
        return tuple(inner) if form == "tuples" and not any(isinstance(x, dict) for x in v) else inner
    if form == "numpy" and isinstance(v, bool):
        return v
    if form == "numpy" and isinstance(v, int):
        return np.int64(v)
    if form == "numpy" and isinstance(v, float):
        return np.float64(v)
    return v


def config_document(cfg, text=False):
    form = "iso" if text else cfg.get("window_form", "iso")
    ctxs = []
    for c in cfg["contexts"]:
        d = OrderedDict()
        w = c.get("window")
        if w is not None:
            wd = OrderedDict()
            if w.get("starting") is not None:
                wd["starting"] = window_value(w["starting"], form, w.get("starting_ns", 0))
            if w.get("ending") is not None:
                wd["ending"] = window_value(w["ending"], form, w.get("ending_ns", 0))
            if c.get("explicit_null"):
                # an open bound spelled out as null instead of being left out (tw(...)._asdict(), `ending: null`)
                for b in ("starting", "ending"):
                    wd.setdefault(b, None)
            d["window"] = wd
        if c.get("region"):
            d["region"] = json.loads(json.dumps(c["region"]))
        d["streams"] = nested_streams(c["entries"], "text" if text else cfg.get("param_form", "plain"))
        ctxs.append(d)
    if cfg.get("layout", "contexts") == "streams" and len(ctxs) == 1:
        return ctxs[0]
    return OrderedDict(contexts=ctxs)


def _plain(o):
    if isinstance(o, dict):
        return {k: _plain(v) for k, v in o.items()}
    if isinstance(o, list):
        return [_plain(v) for v in o]
    if isinstance(o, tuple):
        return tuple(_plain(v) for v in o)
    return o


_CFG_COUNTER = {"n": 0}


def carry(cfg):
    """Return the object handed to ``Config(...)`` for this carrier."""
    carrier = cfg.get("carrier", "dict")
    if carrier in ("dict", "odict"):
        doc = config_document(cfg, text=False)
        return _plain(doc) if carrier == "dict" else doc
    doc = _plain(config_document(cfg, text=True))
    if carrier in ("json", "json_path"):
        text = json.dumps(doc)
    else:
        from ruamel.yaml import YAML

        y = YAML(typ="safe")
        y.default_flow_style = False
        y.sort_base_mapping_type_on_output = False
        buf = io.StringIO()
        y.dump(doc, buf)
        text = buf.getvalue()
    if carrier in ("yaml", "json"):
        return text
    if carrier == "stringio":
        return io.StringIO(text)
    _CFG_COUNTER["n"] += 1
    ext = "json" if carrier == "json_path" else "yaml"
    path = os.path.join(seams.scratch_dir(), f"config{_CFG_COUNTER['n']}.{ext}")
    with open(path, "w") as f:
        f.write(text)
    return path


_DOC_CACHE = {}


def user_call_objects(user_calls):
    """Call objects for user-written functions (the documented way to run one's own checks)."""
    from functools import partial

    from ioos_qc.config import Call, Context, tw

    out = []
    for u in user_calls:
        w = u.get("window") or {}
        window = tw(
            starting=window_value(w.get("starting"), "timestamp", w.get("starting_ns", 0)),
            ending=window_value(w.get("ending"), "timestamp", w.get("ending_ns", 0)),
        )
        out.append(Call(stream_id=u["sid"], call=partial(seams.user_check(u["variant"]), (), tag=u["tag"]), context=Context(window=window)))
    return out


def with_user_calls(cfg, user_calls):
    """The configuration as the reference model reads it once the user's calls have been added."""
    extra = [
        {"window": u.get("window"), "entries": [{"sid": u["sid"], "module": "qartod", "test": "user_check", "params": {"tag": u["tag"]}, "func_variant": u["variant"], "role": "healthy"}]}
        for u in user_calls
    ]
    return dict(cfg, contexts=cfg["contexts"] + extra)


def build_config(cfg):
    """Config(...) from the scenario's carrier.  With cfg["share_document"] (dict / odict
    carriers) every Config of the scenario is built from the *same* document object, as a
    caller holding one dict would do - so anything parsing writes into it is seen by the next."""
    from ioos_qc.config import Config

    if cfg.get("share_document") and cfg.get("carrier", "dict") in ("dict", "odict"):
        key = id(cfg)
        if key not in _DOC_CACHE or _DOC_CACHE[key][0] is not cfg:
            if len(_DOC_CACHE) > 8:
                _DOC_CACHE.clear()
            _DOC_CACHE[key] = (cfg, carry(cfg))
        base = Config(_DOC_CACHE[key][1])
    else:
        base = Config(carry(cfg))
    # the other documented ways of arriving at the same Config
    how = cfg.get("build", "direct")
    if how == "from_calls":
        return Config(list(base.calls))
    if how == "from_config":
        return Config(base)
    if how == "add_calls":
        calls = list(base.calls)
        if calls:
            c = Config(calls[:1])
            c.add(calls[1:])
            return c
    if how == "add_config" and len(cfg["contexts"]) > 1:
        first = dict(cfg, contexts=cfg["contexts"][:1], build="direct", share_document=False, layout="contexts")
        rest = dict(cfg, contexts=cfg["contexts"][1:], build="direct", share_document=False, layout="contexts")
        c = build_config(first)
        c.add(build_config(rest))
        return c
    return base


def resolvable(entry):
    """Model of 'the module and the test name are known' (F1/F2 are not)."""
    if entry.get("func_variant"):
        return True  # a function object handed over in a Call: nothing to resolve
    if entry["module"] not in KNOWN_MODULES:
        return False
    mod = import_module(f"ioos_qc.{entry['module']}")
    return entry["test"] in CATALOGUE.get(entry["module"], ()) or (
        entry["test"] in ("sim_probe", "sim_fault", "aggregate") and hasattr(mod, entry["test"])
    )


CATALOGUE = {
    "qartod": (
        "gross_range_test",
        "spike_test",
        "rate_of_change_test",
        "flat_line_test",
        "attenuated_signal_test",
        "climatology_test",
        "density_inversion_test",
        "location_test",
    ),
    "argo": ("pressure_increasing_test", "speed_test"),
    "axds": ("valid_range_test",),
}


def context_key(c):
    """Two configured contexts with the same window and region are one Context for
    Config.contexts: their calls are run together, at the position of the first."""
    w = c.get("window") or {}
    return (bound_ns(w, "starting"), bound_ns(w, "ending"), json.dumps(c.get("region"), sort_keys=True))


def expected_calls(cfg, table_sids):
    """The yields a stream must produce, in order: one per resolvable entry whose
    stream id exists, context by context (equal contexts merged at their first
    appearance)."""
    groups = OrderedDict()
    for ci, c in enumerate(cfg["contexts"]):
        groups.setdefault(context_key(c), []).append(ci)
    out = []
    for cis in groups.values():
        for ci in cis:
            c = cfg["contexts"][ci]
            nested = nested_streams(c["entries"])
            by_key = {(e["sid"], e["module"], e["test"]): e for e in c["entries"]}
            for sid, mods in nested.items():
                for module, tests in mods.items():
                    for test in tests:
                        e = by_key[(sid, module, test)]
                        if not resolvable(e):
                            continue
                        if sid not in table_sids:
                            continue
                        out.append({"ctx": ci, "entry": e})
    return out


# --------------------------------------------------------------------------
# direct call = the reference execution of one entry on its window rows
# --------------------------------------------------------------------------
def direct_call(entry, arrays, rows, axes_present=None):
    """Call the real test function on plain arrays restricted to ``rows``.

    Returns (flags ndarray | None, exception-class-name | None).
    """
    if entry.get("func_variant"):
        func = seams.user_check(entry["func_variant"])
    else:
        mod = import_module(f"ioos_qc.{entry['module']}")
        func = getattr(mod, entry["test"])
    kwargs = json.loads(json.dumps(entry["params"])) if entry.get("params") else {}
    kwargs["inp"] = arrays["cols_ext"][entry["sid"]][rows].copy()
    have = axes_present or {
        "tinp": arrays["time"] is not None,
        "zinp": arrays["z"] is not None,
        "lat": arrays["lat"] is not None,
        "lon": arrays["lon"] is not None,
    }
    src = {"tinp": arrays["time"], "zinp": arrays["z"], "lat": arrays["lat"], "lon": arrays["lon"]}
    for ax in AXES:
        if have.get(ax) and src[ax] is not None:
            kwargs[ax] = src[ax][rows].copy()
    # "called directly with that context's parameters": everything the function accepts by keyword
    # (the stream's axes it has no parameter for are simply not its inputs)
    valid = [p.name for p in signature(func).parameters.values() if p.kind in (p.POSITIONAL_OR_KEYWORD, p.KEYWORD_ONLY)]
    kwargs = {k: v for k, v in kwargs.items() if k in valid}
    try:
        res = func(**kwargs)
    except Exception as e:  # noqa: BLE001 - "cannot be executed" => no result
        return None, type(e).__name__
    return res, None


def flags_json(res):
    """Canonical JSON value of a flag vector: ints, 'M' for masked entries."""
    if res is None:
        return None
    m = np.ma.getmaskarray(res).ravel()
    d = np.asarray(np.ma.getdata(res)).ravel()
    out = []
    for i in range(d.size):
        if m[i]:
            out.append("M")
        else:
            v = d[i]
            out.append(int(v) if float(v).is_integer() else float(v))
    return out


# --------------------------------------------------------------------------
# front ends
# --------------------------------------------------------------------------
FRONTENDS = ("pandas", "numpy", "netcdf_obj", "netcdf_path", "xarray_obj", "xarray_path", "qcconfig")


def make_stream(frontend, tbl):
    """Return (stream_object, closer).  'qcconfig' is handled by the caller."""
    from ioos_qc.streams import NetcdfStream, NumpyStream, PandasStream, XarrayStream

    a = table_arrays(tbl)
    kw = stream_kwargs(tbl)
    if frontend == "pandas":
        return PandasStream(make_df(tbl), **kw), None
    if frontend == "numpy":
        inp = OrderedDict((k, v.copy()) for k, v in a["cols_ext"].items())
        if tbl.get("readonly"):
            for v in inp.values():
                v.setflags(write=False)  # a caller may well hand over arrays it does not want written
        if tbl.get("numpy_single") and len(a["cols"]) == 1:
            inp = next(iter(inp.values()))
        return (
            NumpyStream(
                inp=inp,
                time=a["time"].copy() if a["time"] is not None else None,
                z=a["z"].copy() if a["z"] is not None else None,
                lat=a["lat"].copy() if a["lat"] is not None else None,
                lon=a["lon"].copy() if a["lon"] is not None else None,
            ),
            None,
        )
    if frontend == "netcdf_obj":
        ds = make_xr(tbl)
        return NetcdfStream(ds, **kw), ds.close
    if frontend == "xarray_obj":
        ds = make_xr(tbl)
        return XarrayStream(ds, **kw), ds.close
    if frontend == "netcdf_path":
        return NetcdfStream(write_nc(tbl), **kw), None
    if frontend == "xarray_path":
        return XarrayStream(write_nc(tbl), **kw), None
    raise ValueError(frontend)


def run_qcconfig(cfg, tbl, sid, user_calls=None):
    """The deprecated single-stream front end; returns the dict-form results."""
    import warnings

    from ioos_qc.config import QcConfig

    a = table_arrays(tbl)
    with warnings.catch_warnings():
        warnings.simplefilter("ignore", DeprecationWarning)
        qc = QcConfig(carry(cfg), default_stream_key=sid)
    if user_calls:
        qc.add(user_call_objects(user_calls))
    kw = {"inp": a["cols"][sid].copy()}
    if a["time"] is not None:
        kw["tinp"] = a["time"].copy()
    if a["z"] is not None:
        kw["zinp"] = a["z"].copy()
    if a["lat"] is not None:
        kw["lat"] = a["lat"].copy()
    if a["lon"] is not None:
        kw["lon"] = a["lon"].copy()
    return qc.run(**kw)
