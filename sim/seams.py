"""Seams the simulator owns (DESIGN.md section 1).

* dirty allocator: every *fresh, uninitialised* numpy buffer is filled with an
  adversarial, scenario-chosen pattern before the caller sees it;
* probe / faulty QC functions registered inside the real ``ioos_qc`` test
  modules (in-process fakes of "a QC test");
* log capture on the ``ioos_qc`` logger (counted, never asserted);
* scratch directory for file-backed sources.

Nothing here draws random numbers or reads a clock.
"""
import atexit
import logging
import os
import shutil
import tempfile

import numpy as np

FLAGSET = (1, 2, 3, 4, 9)

# --------------------------------------------------------------------------
# dirty allocator
# --------------------------------------------------------------------------
_ORIG = {}
_DIRTY = {"pattern": "off", "byte": 4}
STATS = {"dirty_allocs": 0, "dirty_bytes": 0}


def _fill(a):
    pat = _DIRTY["pattern"]
    if pat == "off":
        return a
    try:
        base = np.asarray(a)
        if base.size == 0 or not base.flags.writeable:
            return a
        kind = base.dtype.kind
        byte = _DIRTY["byte"]
        if kind not in "buifMm":
            return a
        if pat == "ff":
            if base.flags.c_contiguous or base.flags.f_contiguous:
                base.view(np.uint8).fill(0xFF)
        elif kind == "b":
            base.fill(bool(byte & 1))
        elif kind in "ui":
            base.fill(byte)
        elif kind == "f":
            base.fill(float(byte))
        else:  # M / m : a perfectly valid instant / duration
            base.view(np.int64).fill(978307200_000_000_000 // _unit_div(base.dtype) + byte)
        STATS["dirty_allocs"] += 1
        STATS["dirty_bytes"] += base.nbytes
    except Exception:  # noqa: BLE001 - the seam must never break the caller
        pass
    return a


def _unit_div(dt):
    unit = np.datetime_data(dt)[0]
    return {"ns": 1, "us": 10**3, "ms": 10**6, "s": 10**9}.get(unit, 10**9)


def _wrap(fn):
    def wrapper(*args, **kwargs):
        return _fill(fn(*args, **kwargs))

    wrapper.__name__ = getattr(fn, "__name__", "wrapped")
    wrapper.__doc__ = getattr(fn, "__doc__", None)
    wrapper.__wrapped__ = fn
    return wrapper


_TARGETS = [
    (np, "empty"),
    (np, "empty_like"),
    (np.ma, "empty"),
    (np.ma, "empty_like"),
    (np.ma, "masked_all"),
    (np.ma, "masked_all_like"),
]


def install_dirty():
    """Install the six wrappers once per process (idempotent)."""
    if _ORIG:
        return
    for mod, name in _TARGETS:
        fn = getattr(mod, name)
        _ORIG[(mod.__name__, name)] = fn
        setattr(mod, name, _wrap(fn))
    # numpy.ma.core re-exports
    import numpy.ma.core as mac
    import numpy.ma.extras as mae

    mac.empty = np.ma.empty
    mac.empty_like = np.ma.empty_like
    mae.masked_all = np.ma.masked_all
    mae.masked_all_like = np.ma.masked_all_like


def set_dirty(spec):
    """spec: {"pattern": "off"|"flag"|"ff", "byte": int}"""
    spec = spec or {"pattern": "off", "byte": 0}
    _DIRTY["pattern"] = spec.get("pattern", "off")
    _DIRTY["byte"] = int(spec.get("byte", 4))


def get_dirty():
    return dict(_DIRTY)


# --------------------------------------------------------------------------
# value <-> JSON helpers (canonical, order preserving, no ids)
# --------------------------------------------------------------------------
def floats_to_json(a):
    """float array -> list with None for NaN / masked."""
    if a is None:
        return None
    m = np.ma.getmaskarray(a) if isinstance(a, np.ma.MaskedArray) else None
    arr = np.asarray(np.ma.getdata(a), dtype="float64").ravel()
    out = []
    for i, v in enumerate(arr):
        if (m is not None and m.ravel()[i]) or v != v:
            out.append(None)
        else:
            out.append(float(v))
    return out


def times_to_json(a):
    """datetime-like array -> epoch seconds (ints); NaT -> None."""
    if a is None:
        return None
    arr = np.asarray(np.ma.getdata(a))
    if arr.dtype.kind == "M":
        ns = arr.astype("datetime64[ns]").astype("int64").ravel()
        nat = np.iinfo("int64").min
        # fractional seconds rounded to the microsecond: float <-> ns conversions in file readers are not exact to the ns
        return [None if int(v) == nat else (int(v) // 10**9 if v % 10**9 == 0 else round(int(v) / 1e9, 6)) for v in ns]
    if arr.dtype.kind in "fiu":
        return [None if v != v else (int(v) if float(v).is_integer() else round(float(v), 6)) for v in arr.astype("float64").ravel()]
    if arr.dtype.kind == "O":
        import pandas as pd

        return times_to_json(pd.DatetimeIndex(arr).to_numpy())
    raise TypeError(f"cannot serialise times of dtype {arr.dtype}")


def anyarray_to_json(x):
    """Canonical value of any array-like the probe may receive."""
    if x is None:
        return None
    if hasattr(x, "to_numpy"):
        x = x.to_numpy()
    arr = np.asarray(np.ma.getdata(x))
    if arr.dtype.kind in "Mm":
        return {"t": times_to_json(x)}
    if arr.dtype.kind in "iu":
        # integers exactly (a round trip through float64 would hide anything beyond 2**53)
        m = np.ma.getmaskarray(x).ravel() if isinstance(x, np.ma.MaskedArray) else None
        return {"i": [None if (m is not None and m[i]) else int(v) for i, v in enumerate(arr.ravel().tolist())]}
    if arr.dtype.kind in "fb":
        return {"f": floats_to_json(x)}
    return {"o": [repr(v) for v in arr.ravel().tolist()]}


# --------------------------------------------------------------------------
# probe / faulty QC functions
# --------------------------------------------------------------------------
PROBE_LOG = []          # appended by every probe / fault invocation
CURRENT = {"task": None}  # set by the scheduler before each step


class SimFault(Exception):
    """A failure class ioos_qc has never heard of."""


EXC_CLASSES = {
    "ValueError": ValueError,
    "TypeError": TypeError,
    "ZeroDivisionError": ZeroDivisionError,
    "FloatingPointError": FloatingPointError,
    "IndexError": IndexError,
    "KeyError": KeyError,
    "AssertionError": AssertionError,
    "MemoryError": MemoryError,
    "RuntimeError": RuntimeError,
    "OSError": OSError,
    "StopIteration": StopIteration,
    "NotImplementedError": NotImplementedError,
    "UnicodeError": UnicodeError,
    "UserWarning": UserWarning,
    "RecursionError": RecursionError,
    "SimFault": SimFault,
}


def probe_flags(values, tag=0):
    """Flag vector that is a function of (value, position, tag)."""
    arr = np.asarray(np.ma.getdata(values), dtype="float64").ravel()
    out = np.empty(arr.shape, dtype="uint8")
    for i, v in enumerate(arr):
        key = (int(round(v * 4)) if v == v and abs(v) < 1e9 else 977) + 3 * i + int(tag)
        out[i] = FLAGSET[key % 5]
    return out


def _scribble_on(x):
    """Torn operation: overwrite the argument in place (best effort)."""
    n = 0
    try:
        if hasattr(x, "to_numpy"):
            x = x.to_numpy()
        arr = np.asarray(np.ma.getdata(x))
        if arr.size == 0:
            return 0
        if not arr.flags.writeable:
            try:
                arr.setflags(write=True)
            except ValueError:
                return 0
        if arr.dtype.kind == "f":
            arr[...] = -12345.0
            n = 1
        elif arr.dtype.kind in "Mm":
            arr.view("int64")[...] = 86400 * 10**9
            n = 1
        elif arr.dtype.kind in "iu":
            arr[...] = 7
            n = 1
    except Exception:  # noqa: BLE001
        return 0
    return n


def _make_sim_functions(module_name):
    def sim_probe(inp, tinp=None, zinp=None, lat=None, lon=None, tag=0, tidy=False):
        PROBE_LOG.append(
            {
                "fn": "sim_probe",
                "module": module_name,
                "task": CURRENT["task"],
                "tag": tag,
                "inp": anyarray_to_json(inp),
                "tinp": anyarray_to_json(tinp),
                "zinp": anyarray_to_json(zinp),
                "lat": anyarray_to_json(lat),
                "lon": anyarray_to_json(lon),
            },
        )
        flags = probe_flags(inp if not hasattr(inp, "to_numpy") else inp.to_numpy(), tag)
        if tidy:
            # a user test that "normalises" the axes it was handed, in place (it owns its arguments, does it not?)
            for a in (tinp, zinp, lat, lon):
                if a is not None:
                    _scribble_on(a)
        return flags

    def sim_fault(  # noqa: PLR0913
        inp,
        tinp=None,
        zinp=None,
        lat=None,
        lon=None,
        mode="raise",
        exc="ValueError",
        scribble=False,
        tag=0,
        limit=0,
    ):
        n = len(inp) if hasattr(inp, "__len__") else 1
        fire = mode == "raise" or (mode == "raise_if_n_le" and n <= limit) or (
            mode == "raise_if_n_gt" and n > limit
        )
        scribbled = 0
        if fire and scribble:
            for a in (inp, tinp, zinp, lat, lon):
                if a is not None:
                    scribbled += _scribble_on(a)
        PROBE_LOG.append(
            {
                "fn": "sim_fault",
                "module": module_name,
                "task": CURRENT["task"],
                "tag": tag,
                "fired": bool(fire),
                "exc": exc if fire else None,
                "scribbled": scribbled,
                "n": n,
            },
        )
        if fire:
            raise EXC_CLASSES[exc](f"injected fault tag={tag}")
        return probe_flags(inp if not hasattr(inp, "to_numpy") else inp.to_numpy(), tag)

    for f in (sim_probe, sim_fault):
        f.__module__ = f"ioos_qc.{module_name}"
        f.__qualname__ = f.__name__
    return sim_probe, sim_fault


_USER_CHECKS = {}


def user_check(variant):
    """User-written QC functions as a caller may hand them over in Call objects: one factory, one name
    and module for all of them, different signatures (what two closures or two notebook cells give)."""
    if variant in _USER_CHECKS:
        return _USER_CHECKS[variant]

    def record(name, inp, tag, **axes):
        PROBE_LOG.append({"fn": "user_check", "variant": name, "task": CURRENT["task"], "tag": tag, "inp": anyarray_to_json(inp), **{k: anyarray_to_json(v) for k, v in axes.items()}})
        seen = sum(w for k, w in (("tinp", 3), ("zinp", 5), ("lat", 7), ("lon", 11)) if axes.get(k) is not None)
        return probe_flags(inp if not hasattr(inp, "to_numpy") else inp.to_numpy(), int(tag) + seen)

    if variant == "inp":
        def user_check(inp, tag=0):
            return record("inp", inp, tag)
    elif variant == "inp_z":
        def user_check(inp, zinp=None, tag=0):
            return record("inp_z", inp, tag, zinp=zinp)
    elif variant == "inp_t":
        def user_check(inp, tinp=None, tag=0):
            return record("inp_t", inp, tag, tinp=tinp)
    else:
        def user_check(inp, tinp=None, zinp=None, lat=None, lon=None, tag=0):
            return record("all", inp, tag, tinp=tinp, zinp=zinp, lat=lat, lon=lon)
    user_check.__module__ = "ioos_qc.qartod"
    user_check.__qualname__ = "user_check"
    _USER_CHECKS[variant] = user_check
    return user_check


class UserLimits:
    """A user's configured checker object; its bound method is the test function of a Call."""

    def __init__(self, offset=0):
        self.offset = offset

    def limits_test(self, inp, tag=0):
        return probe_flags(inp if not hasattr(inp, "to_numpy") else inp.to_numpy(), int(tag) + self.offset)


USER_LIMITS = UserLimits(2)


_REGISTERED = {}


def register_sim_functions():
    """Make ``sim_probe`` / ``sim_fault`` resolvable as qartod/argo/axds tests."""
    from importlib import import_module

    for name in ("qartod", "argo", "axds"):
        mod = import_module(f"ioos_qc.{name}")
        if name not in _REGISTERED:
            _REGISTERED[name] = _make_sim_functions(name)
        probe, fault = _REGISTERED[name]
        mod.sim_probe = probe
        mod.sim_fault = fault
    return _REGISTERED


# --------------------------------------------------------------------------
# log capture
# --------------------------------------------------------------------------
class _Counter(logging.Handler):
    def __init__(self):
        super().__init__(level=logging.DEBUG)
        self.counts = {}

    def emit(self, record):
        key = f"{record.levelname}:{record.name.replace('ioos_qc.', '')}"
        self.counts[key] = self.counts.get(key, 0) + 1


LOGS = _Counter()


def capture_logs():
    lg = logging.getLogger("ioos_qc")
    if LOGS not in lg.handlers:
        lg.handlers = [LOGS]
        lg.propagate = False
        lg.setLevel(logging.WARNING)


# --------------------------------------------------------------------------
# scratch directory
# --------------------------------------------------------------------------
_SCRATCH = {"dir": None}


def scratch_dir():
    if _SCRATCH["dir"] is None or not os.path.isdir(_SCRATCH["dir"]):
        _SCRATCH["dir"] = tempfile.mkdtemp(prefix="ioosqc-sim-")
        atexit.register(cleanup_scratch)
    return _SCRATCH["dir"]


def cleanup_scratch():
    d = _SCRATCH["dir"]
    if d and os.path.isdir(d):
        shutil.rmtree(d, ignore_errors=True)
    _SCRATCH["dir"] = None


def assert_repo():
    """The code under test must be the current working tree of $VERIF_REPO."""
    import ioos_qc

    repo = os.path.realpath(os.environ.get("VERIF_REPO", "/repo"))
    here = os.path.realpath(ioos_qc.__file__)
    if not here.startswith(repo + os.sep):
        raise RuntimeError(f"ioos_qc loaded from {here}, expected under {repo}")
    return here
