"""One integer decides everything.

``VERIF_SEED`` -> per-run seed ``sha256(VERIF_SEED|property|run index)`` -> one
``random.Random``.  Only *generators* draw from it; executors are pure functions
of the scenario document.
"""
import hashlib
import random


def derive(*parts) -> int:
    h = hashlib.sha256("|".join(str(p) for p in parts).encode()).digest()
    return int.from_bytes(h[:8], "big")


class Rng(random.Random):
    def chance(self, p: float) -> bool:
        return self.random() < p

    def pick(self, seq):
        return seq[self.randrange(len(seq))]

    def weighted(self, pairs):
        """pairs: [(item, weight), ...]"""
        total = sum(w for _, w in pairs)
        x = self.random() * total
        for item, w in pairs:
            x -= w
            if x < 0:
                return item
        return pairs[-1][0]

    def subset(self, seq, p=0.5, at_least=0):
        out = [x for x in seq if self.random() < p]
        while len(out) < at_least and len(out) < len(seq):
            x = self.pick(seq)
            if x not in out:
                out.append(x)
        return out

    def dyadic(self, lo=-16, hi=16, denom=4):
        """A small exactly representable number."""
        return self.randint(lo * denom, hi * denom) / denom


def run_rng(verif_seed: int, prop: str, index: int) -> Rng:
    return Rng(derive("ioosqc-sim", verif_seed, prop, index))
