"""Run one logical QC run on several stream front ends ("replicas") under the
cooperative scheduler, and match what they yield against the calls the
configuration asks for.  Shared by C05, C06, C18 and C19.
"""
import numpy as np

from sim import pipeline as pl
from sim import seams
from sim.sched import Scheduler, Task
from sim.util import digest, exc_signature


_MATERIALISED = {}


def results_of(item):
    """ContextResult.results as a list.  It is declared a list; if a stream hands out a one-shot
    iterable instead, it is read once here (like a first consumer would) and that reading is kept -
    what a second reading gives is checked separately (``readable_again``)."""
    r = item.results
    if isinstance(r, (list, tuple)):
        return r
    key = id(item)
    if key not in _MATERIALISED or _MATERIALISED[key][0] is not item:
        _MATERIALISED[key] = (item, list(r))
    return _MATERIALISED[key][1]


def readable_again(item):
    """False when the results of a ContextResult cannot be read a second time."""
    r = item.results
    if isinstance(r, (list, tuple)):
        return True
    first = results_of(item)
    return len(list(r)) == len(first)


def describe_item(item):
    """Value-only description of a yielded item (no ids, no addresses)."""
    if isinstance(item, tuple) and item and item[0] == "qcdict":
        return {"qcdict": digest(dict_results_json(item[1]))}
    return {
        "sid": item.stream_id,
        "res": [(r.package, r.test, pl.flags_json(r.results)) for r in results_of(item)],
        "subset": np.asarray(item.subset_indexes).astype(int).tolist(),
    }


def dict_results_json(d):
    out = {}
    for module in d:
        out[module] = {}
        for test in d[module]:
            out[module][test] = pl.flags_json(d[module][test])
    return out


class Replica:
    def __init__(self, name, frontend, which="main"):
        self.name = name
        self.frontend = frontend
        self.which = which              # "main" | "alt": which config document this replica runs
        self.stream = None
        self.config = None
        self.closer = None
        self.task = None
        self.setup_error = None


def build_replicas(scn, shared_config=None):
    """Create stream + Config objects and one scheduler task per front end.

    With scn["alt_config"], the front ends listed in scn["alt_on"] get a second
    task that runs the alternative config on the *same stream object* (state
    kept on a stream between/within runs is then observable)."""
    tbl, cfg = scn["table"], scn["config"]
    reps = []
    for fe in scn["frontends"]:
        r = Replica(fe, fe)
        try:
            if fe == "qcconfig":
                sid = scn.get("qc_sid") or next(iter(tbl["cols"]))

                def factory(sid=sid):
                    def g():
                        yield ("qcdict", pl.run_qcconfig(cfg, tbl, sid, scn.get("user_calls")))

                    return g()

                r.task = Task(r.name, factory)
            else:
                r.stream, r.closer = pl.make_stream(fe, tbl)
                r.config = shared_config if shared_config is not None else pl.build_config(cfg)
                if scn.get("user_calls") and not getattr(r.config, "_sim_user_calls", False):
                    r.config.add(pl.user_call_objects(scn["user_calls"]))
                    r.config._sim_user_calls = True

                def factory(r=r):
                    return r.stream.run(r.config)

                r.task = Task(r.name, factory)
        except Exception as e:  # noqa: BLE001
            r.setup_error = (e, exc_signature(e))
        reps.append(r)
        if fe in scn.get("twin_on", []) and fe != "qcconfig" and r.setup_error is None:
            # a second, independently advanced generator of the same stream object and the same Config object
            t = Replica(f"{fe}+twin", fe, "main")
            t.stream, t.config = r.stream, r.config

            def tfactory(t=t):
                return t.stream.run(t.config)

            t.task = Task(t.name, tfactory)
            reps.append(t)
        if scn.get("alt_config") and fe in scn.get("alt_on", []) and fe != "qcconfig" and r.setup_error is None:
            a = Replica(f"{fe}+alt", fe, "alt")
            try:
                a.stream = r.stream
                a.config = pl.build_config(scn["alt_config"])

                def afactory(a=a):
                    return a.stream.run(a.config)

                a.task = Task(a.name, afactory)
            except Exception as e:  # noqa: BLE001
                a.setup_error = (e, exc_signature(e))
            reps.append(a)
    return reps


def run_replicas(scn, reps):
    tasks = [r.task for r in reps if r.task is not None and r.setup_error is None]
    names = {t.name for t in tasks}
    by_name = {r.name: r for r in reps}

    def on_rerun(name):
        # between two runs the caller extends the very Config object it has been using (Config.add)
        plan = scn.get("add_after_run")
        r = by_name.get(name)
        if plan and r is not None and name in plan["on"] and not getattr(r, "added", False) and r.config is not None:
            r.config.add(pl.build_config(plan["config"]))
            r.added = True
        edit = scn.get("edit_after_run")
        if edit and r is not None and name in edit["on"] and not getattr(r, "edited", False) and r.config is not None:
            # "the list of quality checks ... can be appended and edited until they are ready to be run":
            # one call is replaced in place by a call of the same test with other parameters
            r.config.calls[edit["call_index"]] = pl.build_config(edit["one_call_config"]).calls[0]
            r.edited = True

    def grow(name):
        # between two runs the data source gains a column / variable (a file being appended to, a frame being filled)
        plan = scn.get("grow")
        r = by_name.get(name)
        if plan and r is not None and name in plan["on"] and not getattr(r, "grown", False) and r.stream is not None:
            arr = pl.col(plan["values"])
            fe = r.frontend
            if fe == "pandas":
                r.stream.df[plan["sid"]] = arr
            elif fe == "numpy" and isinstance(r.stream.inp, dict):
                r.stream.inp[plan["sid"]] = arr
            elif fe in ("netcdf_obj", "xarray_obj"):
                ds = r.stream.path_or_ncd
                dim = pl.axis_names(scn["table"])["time"] if scn["table"].get("xr_time", "coord") == "coord" else "obs"
                ds[plan["sid"]] = (dim, arr)
            else:
                return
            r.grown = True

    def between_runs(name):
        on_rerun(name)
        grow(name)

    sch = Scheduler(
        tasks,
        on_rerun=between_runs,
        schedule=scn.get("schedule"),
        abandon=[a for a in scn.get("abandon", []) if a["task"] in names],
        reruns=[n for n in scn.get("reruns", []) if n in names],
        max_events=scn.get("max_events", 4000),
    )
    sch.run(describe_item)
    for r in reps:
        if r.closer is not None:
            try:
                r.closer()
            except Exception:  # noqa: BLE001
                pass
    return sch


def final_yields(task):
    """ContextResults of the last complete incarnation (or None)."""
    done = [y for kind, y in task.history if kind == "done"]
    return done[-1] if done else None


def match_yields(yields, expected, arrays, times):
    """Pair each yielded ContextResult with an expected call (order tolerant).

    Yields that carry a result are matched first (by stream id, module and
    test, preferring the entry whose model window equals the yielded row
    mask); yields without a result are then matched to what is left,
    preferring same-window entries that are expected to fail.

    Returns (pairs [(yield_index, expected_index)], unmatched_yields, unmatched_expected).
    """
    # all four streams yield in configuration order: take that attribution when it is
    # consistent (same count, same stream id, same test label wherever a result exists)
    if len(yields) == len(expected):
        ok = True
        for (item, _), e in zip(yields, expected):
            ent = e["entry"]
            if item.stream_id != ent["sid"] or (
                results_of(item) and (results_of(item)[0].package, results_of(item)[0].test) != (ent["module"], ent["test"])
            ):
                ok = False
                break
        if ok:
            return [(i, i) for i in range(len(yields))], [], []
    masks = [pl.model_rows(e_ctx_window(e), times) for e in expected]
    free = list(range(len(expected)))
    pairs, lonely = [], []

    def exact(item, ei):
        return np.shape(item.subset_indexes) == masks[ei].shape and np.array_equal(item.subset_indexes, masks[ei])

    for with_result in (True, False):
        for yi, (item, _) in enumerate(yields):
            if bool(results_of(item)) != with_result:
                continue
            cands = [ei for ei in free if expected[ei]["entry"]["sid"] == item.stream_id]
            if with_result:
                pk, tt = results_of(item)[0].package, results_of(item)[0].test
                cands = [ei for ei in cands if (expected[ei]["entry"]["module"], expected[ei]["entry"]["test"]) == (pk, tt)]
                ex = [ei for ei in cands if exact(item, ei)]
                ranked = (
                    [ei for ei in ex if not expected[ei].get("fails")]
                    + ex
                    + [ei for ei in cands if not expected[ei].get("fails")]
                    + cands
                )
            else:
                ex = [ei for ei in cands if exact(item, ei)]
                ranked = (
                    [ei for ei in ex if expected[ei].get("fails")]
                    + ex
                    + [ei for ei in cands if expected[ei].get("fails")]
                    + cands
                )
            if not ranked:
                lonely.append(yi)
            else:
                free.remove(ranked[0])
                pairs.append((yi, ranked[0]))
    pairs.sort()
    return pairs, sorted(lonely), free


def e_ctx_window(e):
    return e.get("window")


def annotate_expected(scn, arrays, cfg=None):
    """expected calls + model window + the reference (direct) execution."""
    tbl = scn["table"]
    cfg = cfg or scn["config"]
    exp = pl.expected_calls(cfg, pl.stream_id_universe(tbl))
    times = pl.row_times(tbl)
    for e in exp:
        w = cfg["contexts"][e["ctx"]].get("window")
        e["window"] = w
        rows = pl.model_rows(w, times)
        side = tbl.get("side")
        if side and e["entry"]["sid"] == side["name"]:
            # not along the time dimension: no window applies to it and the stream has no axis to supply for it
            rows = np.ones(len(side["values"]), dtype=bool)
            e["rows"] = rows
            res, err = pl.direct_call(e["entry"], arrays, rows, axes_present={"tinp": False, "zinp": False, "lat": False, "lon": False})
            e["direct"], e["direct_err"], e["fails"], e["side"] = res, err, res is None, True
            continue
        e["rows"] = rows
        res, err = pl.direct_call(e["entry"], arrays, rows)
        e["direct"] = res
        e["direct_err"] = err
        e["fails"] = res is None
    return exp


def dict_results_json_full(d):
    return {sid: dict_results_json(d[sid]) for sid in d}
