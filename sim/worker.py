"""Worker: an exec'd interpreter (PYTHONHASHSEED / MALLOC_PERTURB_ are read at
start-up) that generates, executes and - on violation - minimises scenarios.

Usage: python -m sim.worker <job.json>
"""
import copy
import faulthandler
import json
import os
import sys
import time
import traceback


def merge(dst, src):
    for k, v in src.items():
        if isinstance(v, dict):
            merge(dst.setdefault(k, {}), v)
        elif isinstance(v, (int, float)) and not isinstance(v, bool):
            dst[k] = dst.get(k, 0) + v
    return dst


def run_job(job):
    from sim import engine, hermetic, seams, shrink
    from sim.known import Known
    from sim.util import vkey

    engine.prepare_process()
    prop = job["prop"]
    mod = engine.prop_module(prop)
    known = Known.load()
    deadline = time.monotonic() + job.get("seconds", 1e9)
    out = {
        "records": [],
        "violations": [],
        "harness_errors": [],
        "stats": {},
        "samples": [],
        "hashseed": os.environ.get("PYTHONHASHSEED"),
        "malloc_perturb": os.environ.get("MALLOC_PERTURB_"),
        "selfcheck": {"checked": 0, "mismatch": []},
        "known_hits": {},
        "shrink_execs": 0,
    }
    seen_keys = set()
    child_counts = {"dirty": 0, "logs": {}}

    def run(s):
        res = hermetic.execute(mod, s)
        child_counts["dirty"] += res.pop("_dirty_allocs", 0)
        merge(child_counts["logs"], res.pop("_logs", {}))
        return res

    def scenarios():
        if job.get("scenarios"):
            for i, s in enumerate(job["scenarios"]):
                yield ("given", i, s)
            return
        cases = None
        for ci in job.get("cases", []):
            if cases is None:
                cases = mod.enumerate_cases()
            yield ("case", ci, cases[ci])
        for i in range(job.get("start", 0), job.get("start", 0) + job.get("count", 0)):
            yield ("search", i, None)

    executed = 0
    search_started = False
    for kind, idx, scn in scenarios():
        if kind == "search" and not search_started:
            # the seeded search has its own time budget, whatever the enumerated family took
            search_started = True
            deadline = time.monotonic() + job.get("seconds", 1e9)
        if kind == "search" and time.monotonic() > deadline:
            out["stopped_at"] = idx
            break
        try:
            if scn is None:
                scn = engine.generate(prop, job["verif_seed"], idx, job["tier"])
            scn.setdefault("env", {})["hashseed"] = out["hashseed"]
            res = run(copy.deepcopy(scn))
        except Exception as e:  # noqa: BLE001 - harness failure, classified apart from violations
            out["harness_errors"].append({"kind": kind, "index": idx, "error": repr(e), "trace": traceback.format_exc()[-1500:]})
            continue
        if "harness_error" in res:
            out["harness_errors"].append({"kind": kind, "index": idx, "error": res["harness_error"]})
            continue
        executed += 1
        rec = {
            "k": kind,
            "i": idx,
            "ed": res.get("event_digest", ""),
            "sd": res.get("schedule_digest", ""),
            "es": res.get("end_state", ""),
            "nv": len(res["violations"]),
            "nt": bool(res.get("nontrivial")),
            "ev": res.get("events", 0),
        }
        out["records"].append(rec)
        merge(out["stats"], res.get("stats", {}))
        if len(out["samples"]) < 2 and rec["nt"]:
            out["samples"].append(scn)
        # in-process determinism self-check on a slice of the runs
        if out["selfcheck"]["checked"] < job.get("selfcheck", 0):
            try:
                res2 = run(copy.deepcopy(scn))
                out["selfcheck"]["checked"] += 1
                if (res2.get("event_digest"), res2.get("end_state"), [vkey(v) for v in res2["violations"]]) != (
                    res.get("event_digest"),
                    res.get("end_state"),
                    [vkey(v) for v in res["violations"]],
                ):
                    out["selfcheck"]["mismatch"].append({"kind": kind, "index": idx})
            except Exception as e:  # noqa: BLE001
                out["selfcheck"]["mismatch"].append({"kind": kind, "index": idx, "error": repr(e)})
        if any(known.match(v) is None for v in res["violations"]):
            out["violating_scenarios"] = out.get("violating_scenarios", 0) + 1
        for v in res["violations"]:
            key = vkey(v)
            hit = known.match(v)
            if hit is not None:
                out["known_hits"][hit] = out["known_hits"].get(hit, 0) + 1
                continue
            if key in seen_keys or len(seen_keys) >= job.get("max_keys", 6):
                continue
            seen_keys.add(key)
            cands = getattr(mod, "candidates", shrink.pipeline_candidates)
            # full minimisation effort for the first two distinct violations of this worker, a short one for the rest
            secs = job.get("shrink_seconds", 40) if len(seen_keys) <= 2 else min(8, job.get("shrink_seconds", 40))
            small, execs = shrink.shrink(scn, key, run, cands, max_execs=job.get("shrink_execs", 300), max_seconds=secs)
            out["shrink_execs"] += execs
            out["violations"].append({"violation": v, "scenario": small, "original": {"kind": kind, "index": idx}, "shrink_execs": execs})
    out["executed"] = executed
    out["dirty_allocs"] = seams.STATS["dirty_allocs"] + child_counts["dirty"]
    out["logs"] = merge(dict(seams.LOGS.counts), child_counts["logs"])
    seams.cleanup_scratch()
    return out


def main():
    job = json.load(open(sys.argv[1]))
    faulthandler.enable()
    faulthandler.dump_traceback_later(job.get("watchdog", 900), exit=True)
    out = run_job(job)
    tmp = job["out"] + ".tmp"
    with open(tmp, "w") as f:
        json.dump(out, f)
    os.replace(tmp, job["out"])


if __name__ == "__main__":
    main()
