"""Dispatch: property id -> module; generate / execute a scenario in-process."""
import os
import sys
from importlib import import_module

PROPS = ("C01", "C04", "C05", "C06", "C18", "C19", "C20")


def prop_module(prop):
    return import_module(f"sim.props.{prop.lower()}")


_READY = {"done": False}


def prepare_process():
    """Once per worker: pin thread pools, put the repo on the path, install seams."""
    if _READY["done"]:
        return
    for k in ("OMP_NUM_THREADS", "OPENBLAS_NUM_THREADS", "MKL_NUM_THREADS", "NUMBA_NUM_THREADS", "NUMEXPR_NUM_THREADS"):
        os.environ.setdefault(k, "1")
    repo = os.environ.get("VERIF_REPO", "/repo")
    if repo not in sys.path:
        sys.path.insert(0, repo)
    import warnings

    warnings.filterwarnings("ignore")
    from sim import seams

    seams.assert_repo()
    seams.install_dirty()
    seams.capture_logs()
    seams.register_sim_functions()
    _READY["done"] = True


def generate(prop, verif_seed, index, tier):
    from sim.rng import run_rng

    mod = prop_module(prop)
    rng = run_rng(verif_seed, prop, index)
    scn = mod.generate(rng, tier)
    scn["seed"] = {"verif_seed": verif_seed, "index": index, "tier": tier}
    return scn


def execute(scn):
    prepare_process()
    mod = prop_module(scn["property"])
    return mod.execute(scn)
