"""Dispatch: property id -> module; generate / execute a scenario in-process."""
import os
import sys
from importlib import import_module

PROPS = ("C01", "C04", "C05", "C06", "C18", "C19", "C20")


def prop_module(prop):
    return import_module(f"sim.props.{prop.lower()}")


_READY = {"done": False}


def prepare_process():
    """Once per worker: pin thread pools, put the repo on the path, install seams."""
    if _READY["done"]:
        return
    for k in ("OMP_NUM_THREADS", "OPENBLAS_NUM_THREADS", "MKL_NUM_THREADS", "NUMBA_NUM_THREADS", "NUMEXPR_NUM_THREADS"):
        os.environ.setdefault(k, "1")
    repo = os.environ.get("VERIF_REPO", "/repo")
    if repo not in sys.path:
        sys.path.insert(0, repo)
    import warnings

    warnings.filterwarnings("ignore")
    from sim import seams

    seams.assert_repo()
    warm_zygote()
    seams.install_dirty()
    seams.capture_logs()
    seams.register_sim_functions()
    import gc

    gc.collect()
    gc.freeze()  # keep the zygote's objects out of the children's collections (less copy-on-write per fork)
    _READY["done"] = True


def warm_zygote():
    """Load everything that is imported lazily (I/O back ends, plug-in discovery, YAML, numba
    kernels) once, in the worker, so that forked scenario children do not pay for it each time.
    Only imports and plain third-party calls: no ioos_qc test, stream, collector or parser runs here."""
    import io
    import tempfile

    import numpy as np
    import pandas as pd
    import xarray as xr
    from ruamel.yaml import YAML

    import ioos_qc.argo  # noqa: F401
    import ioos_qc.axds  # noqa: F401
    import ioos_qc.config  # noqa: F401
    import ioos_qc.config_creator  # noqa: F401
    import ioos_qc.qartod  # noqa: F401
    import ioos_qc.results  # noqa: F401
    import ioos_qc.stores  # noqa: F401
    import ioos_qc.streams  # noqa: F401

    try:
        t = pd.date_range("2001-01-01", periods=3, freq="D")
        ds = xr.Dataset({"v": ("time", np.arange(3.0))}, coords={"time": t})
        with tempfile.TemporaryDirectory(prefix="ioosqc-warm-") as d:
            p = os.path.join(d, "w.nc")
            ds.to_netcdf(p, engine="scipy", format="NETCDF3_64BIT")
            xr.open_dataset(p, decode_cf=False).close()
            xr.open_dataset(p).close()
            xr.load_dataset(p)
        ds["v"].sel(time=slice(t[0], t[1]))
        ds.swap_dims({"time": "time"})
        y = YAML(typ="safe")
        buf = io.StringIO()
        y.dump({"a": [1, 2.5, "x"]}, buf)
        y.load(buf.getvalue())
        s = pd.Series([1.0, 2.0, 3.0], index=t)
        s.rolling("2D").std()
        pd.DataFrame({"a": [1.0]}).loc[:, ["a"]]
        from geographiclib.geodesic import Geodesic

        Geodesic.WGS84.Inverse(0.0, 0.0, 1.0, 1.0)
        from scipy.interpolate import CubicSpline

        CubicSpline([0, 1, 2], [0.0, 1.0, 0.0], bc_type="periodic")
        import jsonschema

        jsonschema.validate({"a": 1}, {"type": "object"})
        import shapely.geometry  # noqa: F401
    except Exception:  # noqa: BLE001 - warm-up is an optimisation only
        pass


def generate(prop, verif_seed, index, tier):
    from sim.rng import run_rng

    mod = prop_module(prop)
    rng = run_rng(verif_seed, prop, index)
    scn = mod.generate(rng, tier)
    scn["seed"] = {"verif_seed": verif_seed, "index": index, "tier": tier}
    return scn


def execute(scn):
    """Hermetic execution of one scenario (forked child of this process)."""
    from sim import hermetic

    prepare_process()
    mod = prop_module(scn["property"])
    out = hermetic.execute(mod, scn)
    out.pop("_dirty_allocs", None)
    out.pop("_logs", None)
    return out
