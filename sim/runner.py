"""Runner: splits a batch over exec'd workers, merges results, confirms and
reports violations, writes evidence (DESIGN.md 2.8).

Exit 0: property held on everything explored (KNOWN-FINDING lines allowed).
Exit 1: at least one unlisted violation (VIOLATION lines).
Exit 2: harness error (worker crash, watchdog, determinism mismatch) - never
        reported as a violation and never as success.
"""
import hashlib
import json
import math
import os
import shutil
import subprocess
import sys
import tempfile
import time

from sim import engine
from sim.known import Known
from sim.rng import derive
from sim.util import canon, vkey

VERIF = os.path.dirname(os.path.dirname(os.path.abspath(__file__)))
PY = os.environ.get("VERIF_PYTHON", "/venv/bin/python")
WORKERS = 16
MAX_REPORT = 12


def worker_env(hashseed, malloc_perturb=None):
    env = dict(os.environ)
    env["PYTHONHASHSEED"] = str(hashseed)
    env["PYTHONPATH"] = VERIF
    env["PYTHONDONTWRITEBYTECODE"] = "1"
    for k in ("OMP_NUM_THREADS", "OPENBLAS_NUM_THREADS", "MKL_NUM_THREADS", "NUMBA_NUM_THREADS", "NUMEXPR_NUM_THREADS"):
        env[k] = "1"
    if malloc_perturb:
        env["MALLOC_PERTURB_"] = str(malloc_perturb)
    else:
        env.pop("MALLOC_PERTURB_", None)
    return env


def sweep_stale(max_age_s=6 * 3600):
    """Remove scratch directories left behind by runs that were killed (best effort)."""
    base = tempfile.gettempdir()
    now = time.time()
    for name in os.listdir(base):
        # (not ioosqc-mut-*: those are copies of /repo whose mtime is the repository's, and their owner removes them)
        if name.startswith(("ioosqc-run-", "ioosqc-sim-", "ioosqc-replay-", "ioosqc-selftest-", "ioosqc-warm-")):
            path = os.path.join(base, name)
            try:
                if now - os.stat(path).st_ctime > max_age_s:
                    shutil.rmtree(path, ignore_errors=True)
            except OSError:
                pass


def launch(job, workdir, name, hashseed, malloc_perturb=None):
    job = dict(job)
    job["out"] = os.path.join(workdir, f"{name}.out.json")
    jp = os.path.join(workdir, f"{name}.job.json")
    with open(jp, "w") as f:
        json.dump(job, f)
    log = open(os.path.join(workdir, f"{name}.log"), "w")
    env = worker_env(hashseed, malloc_perturb)
    env["TMPDIR"] = workdir  # the workers' scratch directories live (and die) inside the run directory
    p = subprocess.Popen([PY, "-m", "sim.worker", jp], cwd=VERIF, env=env, stdout=log, stderr=subprocess.STDOUT)
    return {"name": name, "proc": p, "job": job, "log": log, "hashseed": hashseed, "malloc_perturb": malloc_perturb}


def wait_all(procs, timeout):
    t0 = time.monotonic()
    errors = []
    for pr in procs:
        left = max(1.0, timeout - (time.monotonic() - t0))
        try:
            rc = pr["proc"].wait(timeout=left)
        except subprocess.TimeoutExpired:
            pr["proc"].kill()
            pr["proc"].wait()
            rc = -9
        pr["log"].close()
        pr["rc"] = rc
        if rc != 0 or not os.path.exists(pr["job"]["out"]):
            tail = open(pr["log"].name).read()[-2000:]
            errors.append(f"worker {pr['name']} rc={rc}\n{tail}")
            pr["out"] = None
        else:
            pr["out"] = json.load(open(pr["job"]["out"]))
    return errors


def replay_path(prop, v, scn):
    h = hashlib.sha256(canon(scn).encode()).hexdigest()[:10]
    comp = "".join(ch if ch.isalnum() else "_" for ch in v["component"])
    return os.path.join(replay_dir(), f"{prop}-{v['clause']}-{comp}-{h}.json")


def replay_dir():
    return os.environ.get("VERIF_REPLAY_DIR") or os.path.join(VERIF, "replays")


def evidence_dir():
    return os.environ.get("VERIF_EVIDENCE_DIR") or os.path.join(VERIF, "evidence")


def confirm_start(replay_file, workdir, tag):
    doc = json.load(open(replay_file))
    scn = doc["scenario"]
    job = {"prop": scn["property"], "tier": "quick", "verif_seed": 0, "scenarios": [scn], "shrink_execs": 0, "shrink_seconds": 0, "selfcheck": 0, "watchdog": 300}
    return launch(job, workdir, f"confirm-{tag}", doc.get("hashseed") or 0, doc.get("malloc_perturb")), doc


def confirm_finish(pr, doc):
    errs = wait_all([pr], 400)
    if errs:
        return None, errs
    want = tuple(doc["key"])
    got = [tuple(vkey(x["violation"])) for x in pr["out"]["violations"]]
    return want in got, []


def confirm(replay_file, workdir, tag):
    """Re-execute a replay file in a fresh interpreter; True iff the same violation shows."""
    pr, doc = confirm_start(replay_file, workdir, tag)
    return confirm_finish(pr, doc)


def run_check(prop, tier, seed, out=sys.stdout):
    t0 = time.monotonic()
    mod = engine.prop_module(prop)
    budget = dict(mod.BUDGET[tier])
    if os.environ.get("VERIF_RUNS"):
        budget["runs"] = int(os.environ["VERIF_RUNS"])
    if os.environ.get("VERIF_SECONDS"):
        budget["seconds"] = float(os.environ["VERIF_SECONDS"])
    sweep_stale()
    workdir = tempfile.mkdtemp(prefix="ioosqc-run-")
    known = Known.load()
    ncases = 0
    if hasattr(mod, "enumerate_cases") and budget.get("cases", True):
        sys.path.insert(0, os.environ.get("VERIF_REPO", "/repo"))
        ncases = mod.count_cases() if hasattr(mod, "count_cases") else 0
    per = math.ceil(budget["runs"] / WORKERS)
    procs = []
    try:
        for w in range(WORKERS):
            hs = derive("hashseed", seed, prop, tier, w) % (2**32)
            mp = None
            if w % 4 == 3:  # every fourth worker: C-level allocations are perturbed too (glibc MALLOC_PERTURB_)
                mp = 1 + derive("perturb", seed, prop, w) % 254
            job = {
                "prop": prop,
                "tier": tier,
                "verif_seed": seed,
                "start": w * per,
                "count": per,
                "cases": list(range(w, ncases, WORKERS)),
                "seconds": budget["seconds"],
                "selfcheck": budget.get("selfcheck", 2),
                "watchdog": int(budget["seconds"] * 3 + 600),
                "shrink_execs": 300,
                "shrink_seconds": 40,
            }
            procs.append(launch(job, workdir, f"w{w}", hs, mp))
        # cross-process determinism: re-run worker 0's first scenarios in another interpreter
        k = budget.get("crosscheck", 8)
        cross = launch(
            {"prop": prop, "tier": tier, "verif_seed": seed, "start": 0, "count": k, "cases": [], "seconds": 1e9, "selfcheck": 0, "watchdog": 900, "shrink_execs": 0, "shrink_seconds": 0},
            workdir,
            "cross",
            procs[0]["hashseed"],
            procs[0]["malloc_perturb"],
        )
        errors = wait_all(procs + [cross], budget["seconds"] * 3 + 900)
        return report(prop, tier, seed, mod, procs, cross, errors, known, workdir, t0, ncases, out)
    finally:
        for pr in procs:
            if pr["proc"].poll() is None:
                pr["proc"].kill()
        shutil.rmtree(workdir, ignore_errors=True)


def report(prop, tier, seed, mod, procs, cross, errors, known, workdir, t0, ncases, out):
    outs = [p["out"] for p in procs if p["out"] is not None]
    harness = list(errors)
    for o in outs:
        for he in o["harness_errors"]:
            harness.append(f"harness error in scenario {he.get('kind')}#{he.get('index')}: {he['error']}\n{he.get('trace', '')}")
        for mm in o["selfcheck"]["mismatch"]:
            harness.append(f"determinism self-check mismatch (same process): {mm}")
    # cross-process determinism
    crosscheck = {"compared": 0, "mismatch": 0}
    if cross["out"] is not None and procs[0]["out"] is not None:
        a = {(r["k"], r["i"]): (r["ed"], r["es"], r["nv"]) for r in procs[0]["out"]["records"]}
        for r in cross["out"]["records"]:
            key = (r["k"], r["i"])
            if key in a:
                crosscheck["compared"] += 1
                if a[key] != (r["ed"], r["es"], r["nv"]):
                    crosscheck["mismatch"] += 1
                    harness.append(f"determinism mismatch across interpreters for {key}: {a[key]} vs {(r['ed'], r['es'], r['nv'])}")
    # merge
    from sim.worker import merge

    stats, records, samples, hashseeds, perturbs, known_hits = {}, [], [], [], [], {}
    selfchecked = 0
    executed = 0
    logs = {}
    dirty = 0
    for p in procs:
        o = p["out"]
        if o is None:
            continue
        merge(stats, o["stats"])
        records.extend(o["records"])
        samples.extend(o["samples"])
        hashseeds.append(p["hashseed"])
        if p["malloc_perturb"]:
            perturbs.append(p["malloc_perturb"])
        for k, n in o["known_hits"].items():
            known_hits[k] = known_hits.get(k, 0) + n
        selfchecked += o["selfcheck"]["checked"]
        executed += o["executed"]
        merge(logs, o.get("logs", {}))
        dirty += o.get("dirty_allocs", 0)
    # violations: one replay per distinct key, smallest scenario wins
    best = {}
    for o in outs:
        for v in o["violations"]:
            key = vkey(v["violation"])
            size = len(canon(v["scenario"]))
            if key not in best or size < best[key][0]:
                best[key] = (size, v, o)
    reported = []
    os.makedirs(replay_dir(), exist_ok=True)
    # smallest scenarios first; at most MAX_REPORT distinct violations are confirmed and reported
    order = sorted(best, key=lambda k: (best[k][0], k))
    dropped = max(0, len(order) - MAX_REPORT)
    pending = []
    for key in order[:MAX_REPORT]:
        _, v, o = best[key]
        path = replay_path(prop, v["violation"], v["scenario"])
        doc = {
            "format": 1,
            "property": prop,
            "key": list(key),
            "violation": v["violation"],
            "hashseed": o["hashseed"],
            "malloc_perturb": o["malloc_perturb"],
            "original": v["original"],
            "shrink_execs": v["shrink_execs"],
            "scenario": v["scenario"],
        }
        with open(path, "w") as f:
            json.dump(doc, f, indent=1)
        pr, d = confirm_start(path, workdir, f"{len(pending)}")
        pending.append((key, path, v, pr, d))
    for key, path, v, pr, d in pending:
        ok, errs = confirm_finish(pr, d)
        if errs:
            harness.extend(errs)
            continue
        if not ok:
            harness.append(f"violation {key} did not reproduce from {path} in a fresh interpreter")
            continue
        reported.append((key, path, v["violation"]))
    reported.sort()
    wall = time.monotonic() - t0
    nontrivial = {(r["es"], r["sd"]) for r in records if r["nt"]}
    ev = {
        "property_id": prop,
        "tier": tier,
        "seed": seed,
        "level": mod.EVIDENCE["level"],
        "coverage": {
            "evaluations": executed,
            "distinct_nontrivial": len(nontrivial),
            "rule": mod.EVIDENCE["rule"],
            "samples": samples[:3] or [s for o in outs for s in o["samples"]][:3],
            "exhaustive": bool(ncases) and all(len(p["out"]["records"]) >= len(p["job"]["cases"]) for p in procs if p["out"] is not None) and not harness,
            "exhaustive_scope": mod.EVIDENCE.get("exhaustive_scope", "") if ncases else "",
            "enumerated_cases": ncases,
            "search_runs": sum(1 for r in records if r["k"] == "search"),
            "runs_per_hour": int(executed / max(wall, 1e-6) * 3600),
            "events": sum(r["ev"] for r in records),
            "simulated_time_s": 0,
            "simulated_time_note": "the system under test has no timer or deadline; progress is measured in scheduler events",
            "distinct_schedules": len({r["sd"] for r in records}),
            "distinct_end_states": len({r["es"] for r in records}),
            "faults_fired": stats.get("faults", {}),
            "probes": stats.get("probes", {}),
            "other_counters": {k: v for k, v in stats.items() if k not in ("faults", "probes")},
            "dirty_allocations": dirty,
            "hashseeds": hashseeds,
            "malloc_perturb_values": perturbs,
            "ioos_qc_log_records": logs,
            "real_components": mod.EVIDENCE.get("real", []),
            "stub_components": mod.EVIDENCE.get("stub", []),
            "known_findings_matched": {known.describe(k): n for k, n in known_hits.items()},
            "determinism_selfcheck": {"same_process_reexecutions": selfchecked, "cross_interpreter": crosscheck},
            "shrink_executions": sum(o["shrink_execs"] for o in outs),
            "harness_errors": len(harness),
            "violating_scenarios": sum(o.get("violating_scenarios", 0) for o in outs),
        },
        "assumptions": mod.EVIDENCE.get("assumptions", []),
        "wall_s": round(wall, 2),
        "violations": len(reported),
    }
    if not ev["coverage"]["samples"]:
        ev["coverage"]["samples"] = [{"note": "no scenario executed"}]
    os.makedirs(evidence_dir(), exist_ok=True)
    with open(os.path.join(evidence_dir(), f"{prop}.json"), "w") as f:
        json.dump(ev, f, indent=1, default=str)
    for k in sorted(known_hits):
        print(f"KNOWN-FINDING: {known.describe(k)} (matched {known_hits[k]}x)", file=out)
    for key, path, v in reported:
        print(f"VIOLATION property={prop} replay={path}", file=out)
        print(f"  clause={v['clause']} component={v['component']} signature={v['signature']} :: {v['detail']}", file=out)
    if dropped:
        print(f"({dropped} further distinct violation signatures were found and not minimised/reported)", file=out)
    print(
        f"[{prop} {tier} seed={seed}] scenarios={executed} (enumerated {ncases}) distinct_nontrivial={len(nontrivial)} "
        f"violations={len(reported)} violating_scenarios={sum(o.get('violating_scenarios', 0) for o in outs)} known={sum(known_hits.values())} harness_errors={len(harness)} wall={wall:.1f}s",
        file=out,
    )
    if harness:
        for h in harness[:10]:
            print("HARNESS-ERROR:", h[:3000], file=sys.stderr)
        return 1 if reported else 2
    return 1 if reported else 0


def replay(path, out=sys.stdout):
    workdir = tempfile.mkdtemp(prefix="ioosqc-replay-")
    try:
        ok, errs = confirm(path, workdir, "replay")
        doc = json.load(open(path))
        if errs:
            for e in errs:
                print("HARNESS-ERROR:", e, file=sys.stderr)
            return 2
        if ok:
            print(f"VIOLATION property={doc['property']} replay={path}", file=out)
            v = doc["violation"]
            print(f"  clause={v['clause']} component={v['component']} signature={v['signature']} :: {v['detail']}", file=out)
            return 1
        print(f"replay {path}: violation {doc['key']} does not reproduce on this tree", file=out)
        return 0
    finally:
        shutil.rmtree(workdir, ignore_errors=True)
