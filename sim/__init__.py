"""Deterministic simulation with fault injection for ioos_qc (see /verif/DESIGN.md)."""
