"""Seeded workload generators: tables, windows, configs, fault entries.

Everything returned is plain JSON so that a scenario document spells out every
choice explicitly (DESIGN.md 2.2).  Only this module (and the per-property
``generate`` functions) draw from the PRNG.
"""
import json

from sim.seams import EXC_CLASSES

SIDS = ("v1", "v2", "v3")
T_BASES = (1561939200, 1577836800, 1583020800, 1593561600, 1609459200)  # 2019-07 .. 2021-01
STEPS = (1, 30, 60, 600, 3600, 21600, 86400, 86400 * 3, 86400 * 9, 86400 * 31)


# --------------------------------------------------------------------------
# tables
# --------------------------------------------------------------------------
def gen_n(rng, max_n=40):
    n = rng.weighted([(0, 4), (1, 5), (2, 5), (3, 6), ("s", 55), ("l", 25), ("xl", 1 if max_n >= 24 else 0)])
    if n == "xl":
        return rng.randint(150, 400)  # now and then a few hundred rows: thresholds, chunk sizes, numba paths
    if n == "s":
        return rng.randint(4, min(12, max_n))
    if n == "l":
        return rng.randint(min(13, max_n), max_n)
    return n


T_MAX = 9_000_000_000  # stay well inside what datetime64[ns] can represent (it ends in April 2262)


def gen_times(rng, n):
    t0 = rng.pick(T_BASES) + rng.pick((0, 0, 3600 * 5, 86400 * 11 + 17))
    steps = [x for x in STEPS if t0 + 3 * x * (n + 1) < T_MAX] or [1]
    if rng.chance(0.6):
        step = rng.pick(steps)
        return [t0 + i * step for i in range(n)]
    out, t = [], t0
    for _ in range(n):
        out.append(t)
        t += rng.pick(steps) * rng.randint(1, 3)
    return out


def gen_values(rng, n, nan_p=0.1, style=None):
    style = style or rng.pick(("noise", "ramp", "plateau", "spiky"))
    out, v = [], rng.dyadic(-8, 8)
    for i in range(n):
        if style == "noise":
            v = rng.dyadic(-8, 8)
        elif style == "ramp":
            v = v + rng.dyadic(0, 1)
        elif style == "plateau":
            if rng.chance(0.25):
                v = rng.dyadic(-8, 8)
        elif style == "spiky":
            v = rng.dyadic(-1, 1) + (rng.pick((8, -8)) if rng.chance(0.2) else 0)
        out.append(None if rng.chance(nan_p) else v)
    return out


def gen_table(rng, max_n=40, nsids=None, axes_p=(0.65, 0.5), index_kinds=None, n=None, no_time_p=0.0, unsorted_p=0.0, frac_p=0.0, nat_p=0.0):
    n = gen_n(rng, max_n) if n is None else n
    k = nsids or rng.weighted([(1, 4), (2, 4), (3, 2)])
    tbl = {
        "times": gen_times(rng, n),
        "cols": {sid: gen_values(rng, n) for sid in SIDS[:k]},
        "z": None,
        "lat": None,
        "lon": None,
        "index": {"kind": "range"},
    }
    if rng.chance(axes_p[0]):
        z, d = [], rng.dyadic(0, 4)
        direction = rng.pick((1, 1, -1, 0))
        for _ in range(n):
            z.append(None if rng.chance(0.05) else d)
            d = d + direction * rng.dyadic(0, 2)
        tbl["z"] = z
    if rng.chance(axes_p[1]):
        la, lo = rng.dyadic(-40, 40), rng.dyadic(-150, 150)
        lat, lon = [], []
        for _ in range(n):
            lat.append(None if rng.chance(0.05) else la)
            lon.append(None if rng.chance(0.05) else lo)
            la = max(-80, min(80, la + rng.dyadic(-1, 1, 8)))
            lo = max(-170, min(170, lo + rng.dyadic(-1, 1, 8)))
        tbl["lat"], tbl["lon"] = lat, lon
    kinds = index_kinds or ("range", "range", "offset", "datetime", "perm", "str")
    kind = rng.pick(kinds)
    tbl["index"] = {"kind": kind}
    if kind == "perm":
        perm = list(range(n))
        rng.shuffle(perm)
        tbl["index"]["perm"] = perm
    if kind == "offset":
        tbl["index"]["start"] = rng.pick((1, 7, 100))
    if unsorted_p and n >= 2 and rng.chance(unsorted_p):
        # rows not in chronological order (a merged or re-transmitted record); still no repeated instant
        t = tbl["times"]
        for _ in range(rng.randint(1, max(1, n // 3))):
            i, j = rng.randrange(n), rng.randrange(n)
            t[i], t[j] = t[j], t[i]
        tbl["unsorted"] = t != sorted(t)
        if tbl["index"]["kind"] == "datetime":
            tbl["index"] = {"kind": "range"}
    if n >= 2 and frac_p and rng.chance(frac_p):
        tbl["frac_ms"] = [rng.pick((0, 0, 250, 500, 750)) for _ in range(n)]  # sub-second sampling (exact in float64)
        tbl["no_files"] = True  # a float time axis in a file does not round-trip sub-second instants to the nanosecond
    if n >= 1 and frac_p and rng.chance(frac_p / 2):
        tbl["frac_ns"] = [rng.randint(0, 999) for _ in range(n)]  # nanosecond-resolution clock
        tbl["no_files"] = True
    if n >= 2 and nat_p and rng.chance(nat_p):
        tbl["nat"] = sorted(rng.sample(range(n), rng.randint(1, min(2, n - 1))))  # a record without a clock value
        if tbl["index"]["kind"] == "datetime":
            tbl["index"] = {"kind": "range"}
    if rng.chance(0.2):
        # other column dtypes (integers cannot hold NaN: only columns without missing values)
        dt = {}
        for sid, vals in tbl["cols"].items():
            choice = rng.pick(("float32", "int32", "float64", "int64"))
            if choice == "int64":
                # a counter / epoch-nanosecond style column: integers far beyond what float64 holds exactly
                if any(v is None for v in vals):
                    continue
                tbl["cols"][sid] = [1583020800000000001 + 1000003 * i * (3 if i % 2 else 1) for i in range(len(vals))]
                tbl["no_files"] = True  # NetCDF3 has no 64-bit integers
                dt[sid] = "int64"
                continue
            if choice == "int32":
                if any(v is None for v in vals):
                    continue
                tbl["cols"][sid] = [float(int(v)) for v in vals]
            if choice != "float64":
                dt[sid] = choice
        if dt:
            tbl["dtypes"] = dt
    if rng.chance(0.2):
        tbl["readonly"] = True
    if no_time_p and rng.chance(no_time_p):
        tbl["no_time"] = True
        if tbl["index"]["kind"] == "datetime":
            tbl["index"] = {"kind": "range"}
    if rng.chance(0.25):
        # non-default axis column / variable names, handed to the stream constructors
        tbl["names"] = {k: v for k, v in (("time", "t_utc"), ("z", "depth"), ("lat", "latitude"), ("lon", "longitude")) if rng.chance(0.6)}
    return tbl


# --------------------------------------------------------------------------
# windows
# --------------------------------------------------------------------------
def boundary_points(rng, times):
    """Candidate bounds: before / exactly on / between / after row times."""
    if not times:
        b = rng.pick(T_BASES)
        return [b - 10, b, b + 10, b + 86400]
    times = sorted(times)
    pts = {times[0] - rng.pick((1, 3600, 86400)), times[-1] + rng.pick((1, 3600, 86400))}
    for i, t in enumerate(times):
        pts.add(t)
        if rng.chance(0.15):
            pts.add(t + 1)  # one second after a row (a sub-second row may sit just before it)
        if i + 1 < len(times) and times[i + 1] - t > 1:
            pts.add(t + (times[i + 1] - t) // 2)
    return sorted(pts)


def gen_windows(rng, times, k, layout=None):
    """Return a list of k distinct window dicts (or None for 'no window')."""
    layout = layout or rng.weighted([("disjoint", 5), ("mixed", 3), ("none", 2)])
    pts = boundary_points(rng, times)
    if layout == "none" or k == 0:
        return _distinct([None] + _mixed(rng, pts, k - 1)) if k > 1 else [None]
    if layout == "disjoint":
        cuts = sorted(rng.sample(pts, min(len(pts), k + 1)))
        wins = [{"starting": cuts[i], "ending": cuts[i + 1]} for i in range(len(cuts) - 1)]
        if wins and rng.chance(0.3):
            wins[0] = {"starting": None, "ending": wins[0]["ending"]}
        if wins and rng.chance(0.3):
            wins[-1] = {"starting": wins[-1]["starting"], "ending": None}
        if rng.chance(0.25):  # an empty window between two rows / outside the data
            p = rng.pick(pts)
            wins.append({"starting": p, "ending": p})
        rng.shuffle(wins)
        return _distinct(wins)[: max(k, 1)] or [None]
    return _distinct(_mixed(rng, pts, k)) or [None]


def _mixed(rng, pts, k):
    wins = []
    for _ in range(k):
        a, b = sorted((rng.pick(pts), rng.pick(pts)))
        kind = rng.weighted([("closed", 6), ("open_start", 2), ("open_end", 2), ("all", 1)])
        if kind == "closed":
            wins.append({"starting": a, "ending": b})
        elif kind == "open_start":
            wins.append({"starting": None, "ending": b})
        elif kind == "open_end":
            wins.append({"starting": a, "ending": None})
        else:
            wins.append({"starting": pts[0], "ending": pts[-1] + 1})
    return wins


def _distinct(wins):
    seen, out = set(), []
    for w in wins:
        key = None if w is None else (w.get("starting"), w.get("ending"))
        if key == (None, None):
            key, w = None, None
        if key in seen:
            continue
        seen.add(key)
        out.append(w)
    return out


# --------------------------------------------------------------------------
# healthy test entries (admissible parameters)
# --------------------------------------------------------------------------
def _span(rng, lo=-8, hi=8):
    a, b = sorted((rng.dyadic(lo, hi), rng.dyadic(lo, hi)))
    return [a, b] if rng.chance(0.8) else [b, a]


def p_gross_range(rng):
    a, b = sorted((rng.dyadic(-8, 8), rng.dyadic(-8, 8)))
    p = {"fail_span": [a, b] if rng.chance(0.8) else [b, a]}
    if rng.chance(0.6):
        c, d = sorted((rng.uniform(a, b), rng.uniform(a, b)))
        p["suspect_span"] = [round(c * 4) / 4 if a <= round(c * 4) / 4 <= b else a, round(d * 4) / 4 if a <= round(d * 4) / 4 <= b else b]
        p["suspect_span"].sort()
    return p


def p_spike(rng):
    p = {}
    s = rng.dyadic(0, 4) or 0.25
    if rng.chance(0.8):
        p["suspect_threshold"] = s
    if rng.chance(0.8):
        p["fail_threshold"] = s + rng.dyadic(0, 4)
    if rng.chance(0.4):
        p["method"] = rng.pick(("average", "differential"))
    return p


def p_roc(rng):
    return {"threshold": rng.pick((0.0, 1 / 1024, 1 / 64, 0.25, 1, 4))}


def p_flat(rng):
    s = rng.pick((1, 60, 600, 3600, 7200, 86400, 86400 * 2))
    return {
        "suspect_threshold": s,
        "fail_threshold": s * rng.pick((1, 2, 3)),
        "tolerance": rng.pick((0, 0.25, 1, 4)),
    }


def p_atten(rng, allow_numba=False):
    f = rng.dyadic(0, 3)
    p = {"suspect_threshold": f + rng.dyadic(0, 3), "fail_threshold": f}
    if rng.chance(0.5):
        p["check_type"] = "std" if not allow_numba else rng.pick(("std", "range"))
    elif rng.chance(0.5):
        p["check_type"] = "range"
        return p  # whole-series range: no rolling window, no numba
    if rng.chance(0.5):
        p["test_period"] = rng.pick((60, 3600, 86400, 86400 * 4))
        if rng.chance(0.5):
            p["min_obs"] = rng.randint(1, 3)
    return p


def p_clim(rng):
    members = []
    for _ in range(rng.randint(1, 3)):
        m = {"vspan": _span(rng)}
        if rng.chance(0.5):
            m["tspan"] = [rng.pick(("2019-01-01", "2020-01-01", "2020-06-15")), rng.pick(("2020-03-01", "2021-01-01", "2022-01-01"))]
        else:
            m["period"] = rng.pick(("month", "quarter", "dayofyear", "weekofyear", "week"))
            hi = {"month": 12, "quarter": 4, "dayofyear": 366, "weekofyear": 53, "week": 53}[m["period"]]
            a, b = sorted((rng.randint(1, hi), rng.randint(1, hi)))
            m["tspan"] = [a, b]
        if rng.chance(0.4):
            m["fspan"] = [m["vspan"][0] - 2, m["vspan"][1] + 2]
            m["fspan"].sort()
        if rng.chance(0.4):
            m["zspan"] = sorted((rng.dyadic(0, 8), rng.dyadic(0, 8)))
        members.append(m)
    return {"config": members}


def p_density(rng):
    p = {}
    if rng.chance(0.8):
        p["suspect_threshold"] = rng.dyadic(-2, 2)
    if rng.chance(0.8):
        p["fail_threshold"] = p.get("suspect_threshold", 0) - rng.dyadic(0, 2)
    return p


def p_location(rng):
    p = {}
    if rng.chance(0.6):
        a, b = sorted((rng.dyadic(-170, 170), rng.dyadic(-170, 170)))
        c, d = sorted((rng.dyadic(-80, 80), rng.dyadic(-80, 80)))
        p["bbox"] = [a, c, b, d]
    if rng.chance(0.5):
        p["range_max"] = rng.pick((1000, 50000, 200000))
    return p


def p_speed(rng):
    s = rng.pick((0.5, 2, 10, 100))
    return {"suspect_threshold": s, "fail_threshold": s * rng.pick((1, 2, 10))}


def p_valid_range(rng):
    a, b = sorted((rng.dyadic(-8, 8), rng.dyadic(-8, 8)))
    p = {"valid_span": [a, b]}
    if rng.chance(0.3):
        p["start_inclusive"] = rng.chance(0.5)
    if rng.chance(0.3):
        p["end_inclusive"] = rng.chance(0.5)
    return p


def p_probe(rng):
    p = {"tag": rng.randint(0, 4)}
    if rng.chance(0.15):
        p["tidy"] = True  # writes into the time / depth / position arrays it receives
    return p


# (module, test, params generator, axes it needs)
TESTS = [
    ("qartod", "gross_range_test", p_gross_range, ()),
    ("qartod", "spike_test", p_spike, ()),
    ("qartod", "rate_of_change_test", p_roc, ("time",)),
    ("qartod", "flat_line_test", p_flat, ("time",)),
    ("qartod", "attenuated_signal_test", p_atten, ("time",)),
    ("qartod", "climatology_test", p_clim, ("time", "z")),
    ("qartod", "density_inversion_test", p_density, ("z",)),
    ("qartod", "location_test", p_location, ("lat", "lon")),
    ("argo", "pressure_increasing_test", lambda rng: {}, ()),
    ("argo", "speed_test", p_speed, ("time", "lat", "lon")),
    ("axds", "valid_range_test", p_valid_range, ()),
    ("qartod", "sim_probe", p_probe, ()),
    ("argo", "sim_probe", p_probe, ()),
    ("axds", "sim_probe", p_probe, ()),
]
TEST_WEIGHTS = [4, 5, 4, 4, 2, 3, 3, 1, 3, 1, 3, 5, 3, 2]


def table_axes(tbl):
    have = set()
    if tbl.get("times") is not None and not tbl.get("no_time"):
        have.add("time")
    if tbl.get("z") is not None:
        have.add("z")
    if tbl.get("lat") is not None:
        have.add("lat")
    if tbl.get("lon") is not None:
        have.add("lon")
    return have


def gen_healthy_entry(rng, sid, tbl, exclude=()):
    have = table_axes(tbl)
    cands = [
        (t, w)
        for t, w in zip(TESTS, TEST_WEIGHTS)
        if set(t[3]) <= have and (t[0], t[1]) not in exclude
    ]
    module, test, gen, _ = rng.weighted(cands)
    return {"sid": sid, "module": module, "test": test, "params": gen(rng), "role": "healthy"}


# --------------------------------------------------------------------------
# fault entries (DESIGN.md 2.4)
# --------------------------------------------------------------------------
FAULT_KINDS = ("F1", "F2", "F3", "F4", "F5", "F6")
WRONG_PACKAGE = (
    ("qartod", "valid_range_test"),
    ("qartod", "speed_test"),
    ("qartod", "pressure_increasing_test"),
    ("axds", "gross_range_test"),
    ("axds", "spike_test"),
    ("axds", "flat_line_test"),
    ("argo", "gross_range_test"),
    ("argo", "rate_of_change_test"),
    ("argo", "valid_range_test"),
    ("axds", "climatology_test"),
)


def gen_fault_entry(rng, kind, sid, tbl, exclude=()):
    """Return one config entry that cannot be executed, or None if this kind is
    impossible on this table (e.g. F4 when every axis is present)."""
    have = table_axes(tbl)
    if kind == "F1":
        module = rng.pick(("nosuchpkg", "qartodd", "qartod2", "xyz.abc"))
        return {"sid": sid, "module": module, "test": "gross_range_test", "params": {"fail_span": [0, 1]}, "role": "F1"}
    if kind == "F2":
        module = rng.pick(("qartod", "argo", "axds"))
        test = rng.pick(("no_such_test", "gross_range", "spike_test_", "Spike_Test"))
        if rng.chance(0.5):
            # a real test asked of the wrong package: the name exists, but not there
            module, test = rng.pick(WRONG_PACKAGE)
        return {"sid": sid, "module": module, "test": test, "params": {"threshold": 1}, "role": "F2"}
    if kind == "F3":
        opts = [
            ("qartod", "gross_range_test", {}),
            ("qartod", "gross_range_test", {"fail_span": [0, 1], "suspect_span": [-1, 2]}),
            ("qartod", "gross_range_test", {"fail_span": [0, 1, 2]}),
            ("qartod", "spike_test", {"suspect_threshold": 1, "method": "median"}),
            ("qartod", "aggregate", {}),
            ("axds", "valid_range_test", {}),
        ]
        if "time" in have:
            opts += [
                ("qartod", "attenuated_signal_test", {"suspect_threshold": 1, "fail_threshold": 0, "check_type": "iqr"}),
                ("qartod", "rate_of_change_test", {}),
                ("qartod", "flat_line_test", {"tolerance": 1}),
            ]
        if {"time", "z"} <= have:
            good = {"tspan": ["2019-01-01", "2022-01-01"], "vspan": [-8, 8]}
            opts += [
                ("qartod", "climatology_test", {"config": [good, {"tspan": [1, 6], "vspan": [0, 1], "period": "fortnight"}]}),
                ("qartod", "climatology_test", {"config": [good, {"tspan": [1, 6, 9], "vspan": [0, 1], "period": "month"}]}),
                ("qartod", "climatology_test", {"config": [{"tspan": [1, 6], "vspan": [0, 1, 2], "period": "month"}, good]}),
            ]
        if {"lat", "lon"} <= have:
            opts += [("qartod", "location_test", {"bbox": [0, 1, 2]})]
        # a value the function refuses *and* that cannot be copied (a dict view, a generator, a lock): Python-object configs only
        opts += [
            ("qartod", "gross_range_test", {"fail_span": {"__obj__": "dict_values", "of": [0, 10]}}),
            ("qartod", "gross_range_test", {"fail_span": [0, 10], "suspect_span": {"__obj__": "generator", "of": [1, 2]}}),
            ("qartod", "spike_test", {"suspect_threshold": 1, "method": {"__obj__": "lock"}}),
        ]
        opts = [o for o in opts if (o[0], o[1]) not in exclude]
        if not opts:
            return None
        module, test, params = rng.pick(opts)
        return {"sid": sid, "module": module, "test": test, "params": params, "role": "F3"}
    if kind == "F4":
        opts = []
        if "time" not in have:
            opts += [
                ("qartod", "rate_of_change_test", {"threshold": 1}),
                ("qartod", "flat_line_test", {"suspect_threshold": 60, "fail_threshold": 120, "tolerance": 1}),
            ]
        if "z" not in have:
            opts += [
                ("qartod", "density_inversion_test", {"suspect_threshold": 0.5}),
                ("qartod", "climatology_test", {"config": [{"tspan": ["2019-01-01", "2022-01-01"], "vspan": [0, 1]}]}),
            ]
        if not {"lat", "lon"} <= have:
            opts += [("qartod", "location_test", {}), ("argo", "speed_test", {"suspect_threshold": 1, "fail_threshold": 2})]
        opts = [o for o in opts if (o[0], o[1]) not in exclude]
        if not opts:
            return None
        module, test, params = rng.pick(opts)
        return {"sid": sid, "module": module, "test": test, "params": params, "role": "F4"}
    if kind == "F5":
        # absent ids, some of which a label-based look-up might still "find" (virtual datetime fields, dimension names)
        ghost = rng.pick(("ghost", "v9", "V1", "time.hour", "time.dayofyear", "v1.x", "obs2", "obs", "time.nope"))
        e = gen_healthy_entry(rng, ghost, tbl)
        e["role"] = "F5"
        return e
    if kind == "F6":
        module = rng.pick(("qartod", "argo", "axds"))
        if (module, "sim_fault") in exclude:
            return None
        n = len(tbl["times"])
        mode = rng.weighted([("raise", 6), ("raise_if_n_gt", 2), ("raise_if_n_le", 2)])
        params = {
            "mode": mode,
            "exc": rng.pick(sorted(EXC_CLASSES)),
            "scribble": rng.chance(0.5),
            "tag": rng.randint(0, 4),
        }
        if mode != "raise":
            # raises while evaluating *some* data: whether this entry fails depends on the rows its window selects
            params["limit"] = rng.randint(0, max(1, n))
        return {"sid": sid, "module": module, "test": "sim_fault", "params": params, "role": "F6d" if mode != "raise" else "F6"}
    raise ValueError(kind)


# --------------------------------------------------------------------------
# configs
# --------------------------------------------------------------------------
CARRIERS = ("dict", "dict", "odict", "yaml", "json", "stringio", "yaml_path", "json_path")
WINDOW_FORMS = ("iso", "datetime", "timestamp", "dt64")


def gen_config(rng, tbl, max_ctx=4, max_tests=3, window_layout=None, fault_kinds=(), max_faults=0, axis_streams_p=0.12):
    sids = list(tbl["cols"])
    k = rng.randint(1, max_ctx)
    wins = gen_windows(rng, tbl["times"], k, window_layout)
    if tbl.get("no_time"):
        wins = [None]  # no time axis: there is no t to compare a window with
    contexts = []
    for w in wins:
        entries = []
        used = set()
        for sid in rng.subset(sids, 0.7, at_least=1):
            for _ in range(rng.randint(1, max_tests)):
                e = gen_healthy_entry(rng, sid, tbl, exclude={(m, t) for (s, m, t) in used if s == sid})
                used.add((sid, e["module"], e["test"]))
                entries.append(e)
        if tbl.get("z") is not None and axis_streams_p and rng.chance(axis_streams_p):
            # a test configured on a column that is also an axis of the stream (QC of the depth record itself)
            zname = (tbl.get("names") or {}).get("z", "z")
            mod, test, gen = rng.pick((("qartod", "gross_range_test", p_gross_range), ("qartod", "spike_test", p_spike), ("qartod", "sim_probe", p_probe), ("qartod", "climatology_test", p_clim)))
            entries.insert(rng.randint(0, len(entries)), {"sid": zname, "module": mod, "test": test, "params": gen(rng), "role": "healthy"})
        ctx = {"window": w, "entries": entries}
        if w and (w.get("starting") is None or w.get("ending") is None) and rng.chance(0.4):
            ctx["explicit_null"] = True
        if rng.chance(0.15):
            # a GeoJSON region: parsed into the Context but, as documented, it does not subset anything
            x, y = rng.randint(-100, 100), rng.randint(-60, 60)
            geom = {"type": "Polygon", "coordinates": [[[x, y], [x + 5, y], [x + 5, y + 5], [x, y + 5], [x, y]]]}
            ctx["region"] = rng.pick(({"geometry": geom}, {"features": [{"type": "Feature", "properties": {}, "geometry": geom}]}))
        contexts.append(ctx)
    nf = 0
    if fault_kinds and max_faults:
        for _ in range(rng.randint(1, max_faults)):
            kind = rng.pick(list(fault_kinds))
            c = rng.pick(contexts)
            sid = rng.pick(sids)
            taken = {(e["module"], e["test"]) for e in c["entries"] if e["sid"] == sid}
            e = gen_fault_entry(rng, kind, sid, tbl, exclude=taken)
            if e is None:
                continue
            if any((x["sid"], x["module"], x["test"]) == (e["sid"], e["module"], e["test"]) for x in c["entries"]):
                continue
            c["entries"].insert(rng.randint(0, len(c["entries"])), e)
            nf += 1
    if fault_kinds and max_faults and rng.chance(0.12):
        # a storm: a dozen entries of one fault kind in one run (log throttles, counters and caches see many of them)
        kind = "F5" if "F5" in fault_kinds and rng.chance(0.4) else rng.pick(list(fault_kinds))
        for k in range(rng.randint(11, 16)):
            c = rng.pick(contexts)
            sid = rng.pick(sids)
            if kind == "F5":
                e = gen_healthy_entry(rng, f"ghost{k}", tbl)
                e["role"] = "F5"
            elif kind == "F1":
                e = {"sid": sid, "module": f"nosuchpkg{k}", "test": "gross_range_test", "params": {"fail_span": [0, 1]}, "role": "F1"}
            elif kind == "F2":
                e = {"sid": sid, "module": rng.pick(("qartod", "argo", "axds")), "test": f"no_such_test_{k}", "params": {"threshold": 1}, "role": "F2"}
            else:
                taken = {(x["module"], x["test"]) for x in c["entries"] if x["sid"] == sid}
                e = gen_fault_entry(rng, kind, sid, tbl, exclude=taken)
            if e is None or any((x["sid"], x["module"], x["test"]) == (e["sid"], e["module"], e["test"]) for x in c["entries"]):
                continue
            c["entries"].insert(rng.randint(0, len(c["entries"])), e)
    if len(contexts) >= 2 and rng.chance(0.08) and not tbl.get("no_time"):
        # the same window again, later in the list, with other tests: Config treats both as one Context
        src = rng.pick(contexts[:-1])
        dup = {"window": json.loads(json.dumps(src["window"])), "entries": []}
        if src.get("region"):
            dup["region"] = json.loads(json.dumps(src["region"]))
        taken = {(e["sid"], e["module"], e["test"]) for e in src["entries"]}
        for sid in rng.subset(sids, 0.7, at_least=1):
            e = gen_healthy_entry(rng, sid, tbl, exclude={(m, t) for (s_, m, t) in taken if s_ == sid})
            if (sid, e["module"], e["test"]) not in taken:
                taken.add((sid, e["module"], e["test"]))
                dup["entries"].append(e)
        if dup["entries"]:
            contexts.append(dup)
    if "F5" in fault_kinds and rng.chance(0.35) and not tbl.get("no_time"):
        # a "dead" context: every entry names a stream the source does not have
        taken = {None if c["window"] is None else (c["window"].get("starting"), c["window"].get("ending")) for c in contexts}
        for w in _mixed(rng, boundary_points(rng, tbl["times"]), 4):
            if (w.get("starting"), w.get("ending")) not in taken:
                dead = []
                for ghost in rng.sample(("ghost", "v9", "V1"), rng.randint(1, 2)):
                    e = gen_healthy_entry(rng, ghost, tbl)
                    e["role"] = "F5"
                    dead.append(e)
                contexts.insert(rng.randint(0, len(contexts)), {"window": w, "entries": dead, "dead": True})
                break
    carrier = rng.pick(CARRIERS)
    wform = rng.pick(WINDOW_FORMS) if carrier in ("dict", "odict") else "iso"
    if tbl.get("frac_ns") and not tbl.get("no_time") and carrier in ("dict", "odict", "json", "json_path") and wform != "datetime":
        # nanosecond-resolution records: window bounds may carry nanoseconds too (spellings that can hold them)
        ns_of = {}  # one sub-second part per bound instant, so that adjacent windows stay adjacent
        for c in contexts:
            w = c.get("window")
            if w:
                for b in ("starting", "ending"):
                    if w.get(b) is not None:
                        if w[b] not in ns_of:
                            ns_of[w[b]] = rng.randint(1, 999) if rng.chance(0.6) else 0
                        if ns_of[w[b]]:
                            w[b + "_ns"] = ns_of[w[b]]
    if tbl.get("frac_ns") and not tbl.get("no_time") and carrier in ("dict", "odict", "json", "json_path") and wform != "datetime" and len(tbl["times"]) and rng.chance(0.5):
        # two contexts whose windows differ by one nanosecond, with a record exactly on the earlier bound:
        # they are different windows, however close
        r = rng.randrange(len(tbl["times"]))
        if r not in (tbl.get("nat") or []):
            sec = tbl["times"][r] + ((tbl.get("frac_ms") or [0] * len(tbl["times"]))[r] // 1000)
            if not (tbl.get("frac_ms") or [0] * len(tbl["times"]))[r] and tbl["frac_ns"][r] < 998:
                ns = tbl["frac_ns"][r]
                lo = min(tbl["times"]) - 5
                twin = []
                for k, extra in enumerate((0, 1)):
                    w = {"starting": lo, "ending": sec}
                    if ns + extra:
                        w["ending_ns"] = ns + extra
                    sid = rng.pick(sids)
                    twin.append({"window": w, "entries": [gen_healthy_entry(rng, sid, tbl)]})
                taken = {(c["window"] or {}).get("ending") for c in contexts}
                if sec not in taken:
                    contexts.extend(twin)
    return {
        "contexts": contexts,
        "window_form": wform,
        "carrier": carrier,
        "layout": "streams" if len(contexts) == 1 and rng.chance(0.4) else "contexts",
        "share_document": rng.chance(0.3),
        "param_form": rng.weighted([("plain", 6), ("tuples", 2), ("numpy", 2)]) if carrier in ("dict", "odict") else "plain",
        "build": rng.weighted([("direct", 7), ("from_calls", 1), ("from_config", 1), ("add_calls", 1), ("add_config", 1)]),
    }


def gen_env(rng):
    return {
        "dirty": {
            "pattern": rng.weighted([("off", 2), ("flag", 6), ("ff", 2)]),
            "byte": rng.pick((1, 2, 3, 4, 4, 9, 0, 255)),
        },
    }


def gen_schedule(rng, ntasks, length=24):
    style = rng.weighted([("random", 6), ("round_robin", 2), ("sequential", 2)])
    if style == "sequential" or ntasks <= 1:
        return [0]
    if style == "round_robin":
        return list(range(ntasks))
    return [rng.randrange(0, 16) for _ in range(length)]
