"""Command line: ./check <Cxx> --tier quick|thorough ; --replay <file> ; selftest ; mutants."""
import argparse
import os
import sys


def main(argv):
    ap = argparse.ArgumentParser(prog="check")
    ap.add_argument("target", nargs="?")
    ap.add_argument("--tier", default=os.environ.get("VERIF_TIER", "quick"), choices=("quick", "thorough"))
    ap.add_argument("--replay")
    ap.add_argument("--seed", type=int, default=int(os.environ.get("VERIF_SEED", "0") or 0))
    a = ap.parse_args(argv)
    from sim import runner

    if a.replay:
        return runner.replay(a.replay)
    if a.target == "selftest":
        from sim import selftest

        return selftest.main(a.seed)
    if a.target == "mutants":
        from sim import mutants

        return mutants.main(a.seed)
    if a.target is None:
        ap.error("need a property id, 'selftest', 'mutants' or --replay")
    prop = a.target.upper()
    from sim.engine import PROPS

    if prop not in PROPS:
        print(f"property {prop} is not claimed by this framework (see MANIFEST.json not_applicable)", file=sys.stderr)
        return 2
    return runner.run_check(prop, a.tier, a.seed)
