"""Sensitivity: apply each /verif/mutants/<Cxx>-*.patch to a scratch copy of
/repo's working tree (outside /repo and /verif), run that property's quick
check against the copy (VERIF_REPO), expect exit 1 with a VIOLATION for the
right property, delete the copy.

./check mutants            all mutants
VERIF_MUTANTS=C18 ./check mutants          only those whose name starts with C18
VERIF_MUTANT_TESTS=1 ...                   also run the repository's test suite on each mutant
"""
import glob
import json
import os
import shutil
import subprocess
import tempfile

VERIF = os.path.dirname(os.path.dirname(os.path.abspath(__file__)))


def scratch_copy():
    d = tempfile.mkdtemp(prefix="ioosqc-mut-")
    subprocess.run(["rsync", "-a", "--exclude", ".git", "--exclude", "__pycache__", "--exclude", "docs", "--exclude", "resources", "/repo/", d + "/"], check=True)
    return d


def run_one(patch, seed, with_tests=False):
    if os.path.basename(patch) == "patch.diff":  # /verif/seeded/<id>/patch.diff (+ meta.json)
        name = "seeded/" + os.path.basename(os.path.dirname(patch))
        prop = json.load(open(os.path.join(os.path.dirname(patch), "meta.json")))["property"]
    else:
        name = os.path.basename(patch)[: -len(".patch")]
        prop = name.split("-")[0]
    d = scratch_copy()
    try:
        r = subprocess.run(["patch", "-p1", "-s", "-d", d, "-i", patch], capture_output=True, text=True)
        if r.returncode != 0:
            return {"mutant": name, "status": "patch-failed", "detail": r.stdout + r.stderr}
        res = {"mutant": name, "property": prop}
        demo = os.path.join(os.path.dirname(patch), "demo.py")
        if os.path.basename(patch) == "patch.diff" and os.path.exists(demo):
            dm = subprocess.run(["/venv/bin/python", demo], cwd=d, env=dict(os.environ, PYTHONPATH=d), capture_output=True, text=True)
            res["demo_rc_with_change"] = dm.returncode
        if with_tests:
            t = subprocess.run(
                ["/venv/bin/python", "-m", "pytest", "-q", "-p", "no:cacheprovider", "-x", "--timeout=900", "tests", "--deselect", "tests/test_config_creator.py::TestQartodConfigurator", "--deselect", "tests/test_utils.py::TestReadXarrayConfig", "--deselect", "tests/test_performance.py"],
                cwd=d,
                env=dict(os.environ, PYTHONPATH=d),
                capture_output=True,
                text=True,
            )
            res["suite_rc"] = t.returncode
            res["suite_tail"] = t.stdout.strip().splitlines()[-1:] if t.stdout else []
        env = dict(os.environ, VERIF_REPO=d, VERIF_SEED=str(seed), VERIF_REPLAY_DIR=os.path.join(d, "replays"), VERIF_EVIDENCE_DIR=os.path.join(d, "evidence"))
        c = subprocess.run([os.path.join(VERIF, "check"), prop, "--tier", "quick"], cwd=VERIF, env=env, capture_output=True, text=True)
        lines = [ln for ln in c.stdout.splitlines() if ln.startswith("VIOLATION")]
        res["rc"] = c.returncode
        res["violations"] = len(lines)
        import re as _re

        m = _re.search(r"violating_scenarios=(\d+)", c.stdout)
        res["violating_scenarios"] = int(m.group(1)) if m else None
        m = _re.search(r"scenarios=(\d+)", c.stdout)
        res["scenarios"] = int(m.group(1)) if m else None
        res["first"] = c.stdout.splitlines()[:4]
        res["status"] = "caught" if c.returncode == 1 and any(f"property={prop} " in ln for ln in lines) else "MISSED"
        meta_path = os.path.join(os.path.dirname(patch), "meta.json")
        if res["status"] == "MISSED" and os.path.basename(patch) == "patch.diff" and os.path.exists(meta_path):
            why = json.load(open(meta_path)).get("accepted_miss")
            if why and c.returncode == 0:
                res["status"] = "missed-as-recorded"
                res["accepted_miss"] = why
        if res["status"] == "MISSED":
            res["stderr"] = c.stderr[-1500:]
        return res
    finally:
        shutil.rmtree(d, ignore_errors=True)


def main(seed=0):
    sel = os.environ.get("VERIF_MUTANTS", "")
    with_tests = bool(os.environ.get("VERIF_MUTANT_TESTS"))
    patches = sorted(glob.glob(os.path.join(VERIF, "mutants", "*.patch"))) + sorted(glob.glob(os.path.join(VERIF, "seeded", "*", "patch.diff")))
    patches = [p for p in patches if os.path.basename(p).startswith(sel) or (os.path.basename(p) == "patch.diff" and ("seeded/" + os.path.basename(os.path.dirname(p))).startswith(sel))]
    results = []
    for p in patches:
        r = run_one(p, seed, with_tests)
        results.append(r)
        print(f"{r['mutant']:45s} {r.get('status')} rc={r.get('rc')} violations={r.get('violations')} violating_scenarios={r.get('violating_scenarios')}/{r.get('scenarios')} suite_rc={r.get('suite_rc')}", flush=True)
        if r.get("status") == "caught":
            print("   ", (r["first"] or [""])[0][:160], flush=True)
            if len(r["first"]) > 1:
                print("   ", r["first"][1][:200], flush=True)
    out = os.path.join(VERIF, "mutants", "RESULTS.json")
    prev = {}
    if os.path.exists(out):
        prev = {r["mutant"]: r for r in json.load(open(out))}
    for r in results:
        keep = prev.get(r["mutant"], {})
        if "suite_rc" not in r and "suite_rc" in keep:
            r["suite_rc"], r["suite_tail"] = keep["suite_rc"], keep.get("suite_tail")
        prev[r["mutant"]] = r
    json.dump([prev[k] for k in sorted(prev)], open(out, "w"), indent=1)
    return 0 if all(r.get("status") in ("caught", "missed-as-recorded") for r in results) else 1
