"""Hermetic execution: every scenario runs in a child forked from the worker.

The worker imports everything, installs the seams and then never executes a
scenario itself, so each execution starts from the same pristine post-import
process state.  State that the code under test leaves behind (module-level
caches, class attributes, memoised buffers, the shared expression stack) can
therefore matter only *within* a scenario - where the oracle sees it - and a
replay file reproduces in a fresh interpreter exactly.
"""
import json
import os
import signal
import traceback


def in_child(fn, *args, timeout=180):
    r, w = os.pipe()
    pid = os.fork()
    if pid == 0:
        code = 0
        try:
            os.close(r)
            signal.alarm(timeout)
            try:
                data = json.dumps(fn(*args)).encode()
            except BaseException as e:  # noqa: BLE001
                data = json.dumps({"child_error": repr(e), "trace": traceback.format_exc()[-2000:]}).encode()
            with os.fdopen(w, "wb") as f:
                f.write(data)
        except BaseException:  # noqa: BLE001
            code = 1
        finally:
            os._exit(code)
    os.close(w)
    with os.fdopen(r, "rb") as f:
        data = f.read()
    _, status = os.waitpid(pid, 0)
    if not data:
        return {"child_error": f"child died with status {status}"}
    return json.loads(data)


def _run(mod_name, scn):
    from importlib import import_module

    from sim import seams

    mod = import_module(mod_name)
    out = mod.execute(scn)
    out["_dirty_allocs"] = seams.STATS["dirty_allocs"]
    out["_logs"] = dict(seams.LOGS.counts)
    return out


def execute(mod, scn):
    """Run mod.execute(scn) hermetically (or directly for modules that fork themselves)."""
    from sim import seams

    if not getattr(mod, "HERMETIC", True):
        return mod.execute(scn)
    seams.scratch_dir()  # created by the parent so that it outlives (and is cleaned up after) the children
    out = in_child(_run, mod.__name__, scn)
    if "child_error" in out:
        return {"harness_error": f"scenario child: {out['child_error']} {out.get('trace', '')}", "violations": [], "stats": {}}
    upd = out.pop("_cache_updates", None)
    if upd and hasattr(mod, "SHARED_CACHE"):
        if len(mod.SHARED_CACHE) > 4000:
            mod.SHARED_CACHE.clear()
        mod.SHARED_CACHE.update(upd)  # pure functions of their key; later children inherit them at fork time
    return out
