"""Cooperative scheduler over generator tasks (DESIGN.md 2.3).

Tasks are the generators returned by ``Stream.run(config)``.  Every ``next()``,
``close()`` and restart is decided by the pre-drawn integers of the scenario's
``schedule``; the scheduler itself never draws a random number, reads a clock or
iterates an unordered container.  Events carry a global sequence number.
"""
from sim import seams
from sim.util import exc_signature


class Task:
    def __init__(self, name, factory, step_bound=None):
        self.name = name
        self.factory = factory          # () -> generator, on the *same* stream/config objects
        self.gen = None
        self.state = "new"              # new | running | done | crashed
        self.yields = []                # [(item, probe_entries)] of the current incarnation
        self.history = []               # completed / abandoned incarnations: [(kind, yields)]
        self.steps = 0
        self.crash = None               # (exception, signature)
        self.step_bound = step_bound
        self.incarnation = 0


class Scheduler:
    def __init__(self, tasks, schedule=None, abandon=None, reruns=None, max_events=5000, on_rerun=None):
        self.on_rerun = on_rerun        # called with the task name between a finished run and its re-run
        self.tasks = list(tasks)
        self.schedule = list(schedule or [0])
        self.abandon = {a["task"]: dict(a) for a in (abandon or [])}
        self.reruns = {}
        for name in reruns or []:
            self.reruns[name] = self.reruns.get(name, 0) + 1  # listed twice = run three times in all
        self.max_events = max_events
        self.events = []                # (seq, kind, task, info)
        self.seq = 0
        self.cursor = 0
        self.timeout = False

    def _emit(self, kind, task, info=None):
        self.seq += 1
        self.events.append((self.seq, kind, task, info))

    def _start(self, t):
        t.incarnation += 1
        seams.CURRENT["task"] = f"{t.name}#{t.incarnation}"
        t.gen = t.factory()
        t.state = "running"
        t.yields = []
        t.steps = 0

    def _step(self, t, describe):
        if t.state == "new":
            self._start(t)
            self._emit("START", t.name, t.incarnation)
        seams.CURRENT["task"] = f"{t.name}#{t.incarnation}"
        mark = len(seams.PROBE_LOG)
        t.steps += 1
        try:
            item = next(t.gen)
        except StopIteration:
            t.state = "done"
            t.history.append(("done", t.yields))
            self._emit("DONE", t.name, len(t.yields))
            if self.reruns.get(t.name):
                self.reruns[t.name] -= 1
                t.state = "new"
                if self.on_rerun is not None:
                    self.on_rerun(t.name)
                self._emit("RERUN", t.name)
            return
        except Exception as e:  # noqa: BLE001 - classified by the oracle, never swallowed
            t.state = "crashed"
            t.crash = (e, exc_signature(e))
            t.history.append(("crashed", t.yields))
            self._emit("CRASH", t.name, t.crash[1])
            return
        probes = seams.PROBE_LOG[mark:]
        t.yields.append((item, probes))
        self._emit("YIELD", t.name, describe(item) if describe else None)
        plan = self.abandon.get(t.name)
        if plan and plan.get("after_yields") == len(t.yields) and not plan.get("used"):
            plan["used"] = True
            t.gen.close()
            t.history.append(("abandoned", t.yields))
            self._emit("ABANDON", t.name, len(t.yields))
            if plan.get("restart"):
                t.state = "new"
                self._emit("RESTART", t.name)
            else:
                t.state = "done"
                t.abandoned_for_good = True

    def run(self, describe=None):
        while True:
            runnable = [t for t in self.tasks if t.state in ("new", "running")]
            if not runnable:
                break
            if self.seq >= self.max_events:
                self.timeout = True
                break
            choice = self.schedule[self.cursor % len(self.schedule)] % len(runnable)
            self.cursor += 1
            self._step(runnable[choice], describe)
        seams.CURRENT["task"] = None
        return self.events

    def kinds(self):
        return [(k, t) for (_, k, t, _) in self.events]
