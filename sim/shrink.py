"""Structural delta debugging over a scenario document (DESIGN.md 2.7).

A candidate is kept iff a fresh execution still shows the same
(property, clause, component, signature).  No randomness: candidates are
produced in a fixed order, so minimisation is itself replayable.
"""
import copy
import time

from sim.util import vkey


def _reproduces(out, key):
    if not out or "harness_error" in out:
        return False
    return any(vkey(v) == key for v in out.get("violations", []))


def shrink(scn, key, execute, candidates, max_execs=400, max_seconds=45.0):
    """Greedy fix-point over ``candidates(scn)``; returns (scenario, executions)."""
    t0 = time.monotonic()  # wall budget only bounds effort; it never decides content order
    execs = 0
    best = scn
    progress = True
    while progress:
        progress = False
        for cand in candidates(best):
            if execs >= max_execs or time.monotonic() - t0 > max_seconds:
                return best, execs
            execs += 1
            try:
                out = execute(copy.deepcopy(cand))
            except Exception:  # noqa: BLE001 - a candidate the harness cannot run is just rejected
                continue
            if _reproduces(out, key):
                best = cand
                progress = True
                break
    return best, execs


# --------------------------------------------------------------------------
# candidate producers for pipeline scenarios (table + config + front ends)
# --------------------------------------------------------------------------
def _drop_each(lst):
    for i in range(len(lst)):
        yield lst[:i] + lst[i + 1 :]


def pipeline_candidates(scn):
    s = scn
    # front ends
    if len(s.get("frontends", [])) > 1:
        for fes in _drop_each(s["frontends"]):
            c = copy.deepcopy(s)
            c["frontends"] = fes
            c["abandon"] = [a for a in c.get("abandon", []) if a["task"] in fes]
            c["reruns"] = [a for a in c.get("reruns", []) if a in fes]
            for k in ("alt_on", "twin_on"):
                if k in c:
                    c[k] = [f for f in c[k] if f in fes]
            if c.get("add_after_run"):
                c["add_after_run"]["on"] = [f for f in c["add_after_run"]["on"] if f in fes]
            yield c
    if s.get("add_after_run"):
        c = copy.deepcopy(s)
        del c["add_after_run"]
        yield c
    if s.get("edit_after_run"):
        c = copy.deepcopy(s)
        del c["edit_after_run"]
        yield c
    for k in ("twin_on", "alt_on"):
        if s.get(k):
            c = copy.deepcopy(s)
            c[k] = []
            if k == "alt_on":
                c.pop("alt_config", None)
            yield c
    # contexts
    ctxs = s["config"]["contexts"]
    if len(ctxs) > 1:
        for cs in _drop_each(ctxs):
            c = copy.deepcopy(s)
            c["config"]["contexts"] = copy.deepcopy(cs)
            yield c
    # entries
    for ci, cx in enumerate(ctxs):
        if len(cx["entries"]) > 1:
            for es in _drop_each(cx["entries"]):
                c = copy.deepcopy(s)
                c["config"]["contexts"][ci]["entries"] = copy.deepcopy(es)
                yield c
    # scheduling
    for k in ("abandon", "reruns"):
        if s.get(k):
            for rest in _drop_each(s[k]):
                c = copy.deepcopy(s)
                c[k] = rest
                yield c
    if s.get("schedule") not in (None, [0]):
        c = copy.deepcopy(s)
        c["schedule"] = [0]
        yield c
    if s.get("share_config"):
        c = copy.deepcopy(s)
        c["share_config"] = False
        yield c
    # ops (store / delivery histories)
    if s.get("ops") and len(s["ops"]) > 1:
        for rest in _drop_each(s["ops"]):
            c = copy.deepcopy(s)
            c["ops"] = rest
            yield c
    # table rows: halves first, then single rows
    n = len(s["table"]["times"])
    if n > 1:
        for lo, hi in ((0, n // 2), (n // 2, n)):
            yield _rows(s, [i for i in range(n) if not (lo <= i < hi)])
    if 1 <= n <= 14:
        for i in range(n):
            yield _rows(s, [j for j in range(n) if j != i])
    # columns and axes
    used = {e["sid"] for cx in ctxs for e in cx["entries"]}
    for sid in list(s["table"]["cols"]):
        if sid not in used and len(s["table"]["cols"]) > 1:
            c = copy.deepcopy(s)
            del c["table"]["cols"][sid]
            yield c
    for ax in ("z",):
        if s["table"].get(ax) is not None:
            c = copy.deepcopy(s)
            c["table"][ax] = None
            yield c
    if s["table"].get("lat") is not None:
        c = copy.deepcopy(s)
        c["table"]["lat"] = c["table"]["lon"] = None
        yield c
    if s["table"].get("index", {}).get("kind") != "range":
        c = copy.deepcopy(s)
        c["table"]["index"] = {"kind": "range"}
        yield c
    # carrier / forms / env
    cfg = s["config"]
    if cfg.get("carrier") != "dict":
        c = copy.deepcopy(s)
        c["config"]["carrier"] = "dict"
        yield c
    if cfg.get("window_form") != "iso":
        c = copy.deepcopy(s)
        c["config"]["window_form"] = "iso"
        yield c
    if cfg.get("layout") != "contexts":
        c = copy.deepcopy(s)
        c["config"]["layout"] = "contexts"
        yield c
    if s.get("env", {}).get("dirty", {}).get("pattern") != "off":
        c = copy.deepcopy(s)
        c["env"]["dirty"] = {"pattern": "off", "byte": 0}
        yield c
    # values -> small integers
    for sid, vals in s["table"]["cols"].items():
        simple = [None if v is None else float(i % 3) for i, v in enumerate(vals)]
        if simple != vals:
            c = copy.deepcopy(s)
            c["table"]["cols"][sid] = simple
            yield c
    # windows -> open bounds
    for ci, cx in enumerate(ctxs):
        w = cx.get("window")
        if w:
            for b in ("starting", "ending"):
                if w.get(b) is not None:
                    c = copy.deepcopy(s)
                    c["config"]["contexts"][ci]["window"][b] = None
                    if c["config"]["contexts"][ci]["window"] == {"starting": None, "ending": None}:
                        c["config"]["contexts"][ci]["window"] = None
                    keys = [_wkey(x.get("window")) for x in c["config"]["contexts"]]
                    if len(set(keys)) == len(keys):
                        yield c


def _wkey(w):
    return None if not w else (w.get("starting"), w.get("starting_ns", 0), w.get("ending"), w.get("ending_ns", 0))


def _rows(s, keep):
    c = copy.deepcopy(s)
    t = c["table"]
    t["times"] = [t["times"][i] for i in keep]
    for sid in t["cols"]:
        t["cols"][sid] = [t["cols"][sid][i] for i in keep]
    for ax in ("z", "lat", "lon"):
        if t.get(ax) is not None:
            t[ax] = [t[ax][i] for i in keep]
    for k in ("frac_ms", "frac_ns"):
        if t.get(k):
            t[k] = [t[k][i] for i in keep]
    if t.get("nat"):
        pos = {old: new for new, old in enumerate(keep)}
        t["nat"] = [pos[i] for i in t["nat"] if i in pos]
    if t.get("index", {}).get("kind") == "perm":
        old = [t["index"]["perm"][i] for i in keep]
        order = sorted(old)
        t["index"]["perm"] = [order.index(v) for v in old]
    return c


def ops_candidates(scn):
    """For history scenarios that are just a list of operations."""
    ops = scn.get("ops", [])
    n = len(ops)
    if n > 1:
        for lo, hi in ((0, n // 2), (n // 2, n)):
            c = copy.deepcopy(scn)
            c["ops"] = [o for i, o in enumerate(ops) if not (lo <= i < hi)]
            yield c
        for i in range(n):
            c = copy.deepcopy(scn)
            c["ops"] = ops[:i] + ops[i + 1 :]
            yield c
    if scn.get("env", {}).get("dirty", {}).get("pattern", "off") != "off":
        c = copy.deepcopy(scn)
        c["env"]["dirty"] = {"pattern": "off", "byte": 0}
        yield c
