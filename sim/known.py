"""Known findings: committed, read-only at run time (DESIGN.md section 5).

One JSON object per line.
  {"status":"known","property","clause","component","signature","what"}  - a genuine,
      unrepaired defect: matched violations print KNOWN-FINDING and do not fail the check;
  {"status":"fixed","property","commit","what"}  - repaired by a fix: commit; suppresses
      nothing, the violation is reported again if it ever returns.
"""
import json
import os

PATH = os.path.join(os.path.dirname(os.path.dirname(os.path.abspath(__file__))), "known_findings.jsonl")


class Known:
    def __init__(self, entries):
        self.entries = entries

    @classmethod
    def load(cls, path=PATH):
        entries = []
        if os.path.exists(path):
            with open(path) as f:
                for line in f:
                    line = line.strip()
                    if line and not line.startswith("#"):
                        entries.append(json.loads(line))
        return cls(entries)

    def match(self, v):
        for i, e in enumerate(self.entries):
            if e.get("status") != "known":
                continue
            if all(e.get(k) == v.get(k) for k in ("property", "clause", "component", "signature")):
                return f"{i}"
        return None

    def describe(self, idx):
        e = self.entries[int(idx)]
        return f"property={e['property']} clause={e['clause']} component={e['component']} signature={e['signature']} :: {e.get('what', '')}"
