"""./check selftest - determinism is tested, not assumed (DESIGN.md 2.9).

For every claimed property: N seeds are executed
  A) in 4 exec'd interpreters x N/4 seeds,
  B) in 2 other interpreters x N/2 seeds (another worker count, other process boundaries),
both under one PYTHONHASHSEED, and
  C) in 4 interpreters under a *different* PYTHONHASHSEED.
A vs B: event-log digest, end-state digest and violation count must be identical
seed by seed (replay is a pure function of the scenario and the code).
A vs C: end-state digests must be identical too (results may not depend on the
hash seed; the event log is allowed to).
Exit 0 all equal, 2 otherwise.
"""
import os
import shutil
import sys
import tempfile

from sim import engine, runner
from sim.rng import derive


def batch(prop, seed, n, nworkers, hashseed, workdir, tag):
    per = (n + nworkers - 1) // nworkers
    procs = []
    for w in range(nworkers):
        job = {"prop": prop, "tier": "quick", "verif_seed": seed, "start": w * per, "count": min(per, n - w * per), "cases": [], "seconds": 1e9, "selfcheck": 0, "watchdog": 1800, "shrink_execs": 0, "shrink_seconds": 0, "max_keys": 0}
        procs.append(runner.launch(job, workdir, f"{prop}-{tag}-{w}", hashseed))
    return procs


def main(seed=0):
    n = int(os.environ.get("VERIF_SELFTEST_N", "200"))
    props = [p for p in engine.PROPS if not os.environ.get("VERIF_SELFTEST_PROPS") or p in os.environ["VERIF_SELFTEST_PROPS"].split(",")]
    workdir = tempfile.mkdtemp(prefix="ioosqc-selftest-")
    bad = 0
    try:
        for prop in props:
            h1 = derive("selftest", seed, prop, 1) % 2**32
            h2 = derive("selftest", seed, prop, 2) % 2**32
            A = batch(prop, seed, n, 4, h1, workdir, "A")
            B = batch(prop, seed, n, 2, h1, workdir, "B")
            C = batch(prop, seed, n, 4, h2, workdir, "C")
            errs = runner.wait_all(A + B + C, 3600)
            if errs:
                for e in errs:
                    print("HARNESS-ERROR:", e[:2000], file=sys.stderr)
                bad += 1
                continue

            def table(procs):
                t = {}
                for p in procs:
                    for r in p["out"]["records"]:
                        t[r["i"]] = (r["ed"], r["es"], r["nv"])
                    for he in p["out"]["harness_errors"]:
                        t[he["index"]] = ("harness-error", he["error"], -1)
                return t

            a, b, c = table(A), table(B), table(C)
            mism_ab = [i for i in sorted(a) if a[i] != b.get(i)]
            mism_ac = [i for i in sorted(a) if a[i][1:] != c.get(i, (None, None, None))[1:]]
            he = sum(1 for v in a.values() if v[0] == "harness-error")
            print(f"{prop}: seeds={len(a)} A(4 procs) vs B(2 procs) mismatches={len(mism_ab)}  A vs C(other PYTHONHASHSEED) end-state mismatches={len(mism_ac)} harness_errors={he}")
            if mism_ab or mism_ac or he or len(a) != n:
                bad += 1
                for i in (mism_ab + mism_ac)[:5]:
                    print(f"   seed index {i}: A={a.get(i)} B={b.get(i)} C={c.get(i)}")
    finally:
        shutil.rmtree(workdir, ignore_errors=True)
    return 0 if bad == 0 else 2
