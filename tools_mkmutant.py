"""tools_mkmutant.py <name> <relpath> <old> <new> [<relpath> <old> <new> ...]
Writes mutants/<name>.patch (unified diff against /repo's working tree).
Several triples may name the same file; they are applied in order."""
import difflib, sys
name = sys.argv[1]
args = sys.argv[2:]
assert len(args) % 3 == 0, len(args)
files = {}
for i in range(0, len(args), 3):
    rel, old, new = args[i:i+3]
    old = old.encode().decode("unicode_escape"); new = new.encode().decode("unicode_escape")
    if rel not in files:
        src = open(f"/repo/{rel}").read()
        files[rel] = [src, src]
    assert files[rel][1].count(old) == 1, (rel, files[rel][1].count(old), old)
    files[rel][1] = files[rel][1].replace(old, new)
out = []
for rel, (src, dst) in files.items():
    out.extend(difflib.unified_diff(src.splitlines(True), dst.splitlines(True), f"a/{rel}", f"b/{rel}"))
open(f"/verif/mutants/{name}.patch", "w").write("".join(out))
print("".join(out))
