"""tools_mkmutant.py <name> <relpath> <old> <new> [<relpath> <old> <new> ...]
Writes mutants/<name>.patch (unified diff against /repo's working tree)."""
import difflib, sys
name = sys.argv[1]
args = sys.argv[2:]
out = []
for i in range(0, len(args), 3):
    rel, old, new = args[i:i+3]
    old = old.encode().decode("unicode_escape"); new = new.encode().decode("unicode_escape")
    src = open(f"/repo/{rel}").read()
    assert src.count(old) == 1, (rel, src.count(old), old)
    dst = src.replace(old, new)
    out.extend(difflib.unified_diff(src.splitlines(True), dst.splitlines(True), f"a/{rel}", f"b/{rel}"))
open(f"/verif/mutants/{name}.patch", "w").write("".join(out))
print("".join(out))
