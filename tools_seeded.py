"""tools_seeded.py <source dir with patch.diff demo.py notes.md> <id> <property>

Confirms an independently written breaking change and files it under
/verif/seeded/<id>/ : (1) the patch applies to a scratch copy of /repo's tree,
(2) demo.py passes on the unchanged copy and fails with the change, (3) the
repository's test suite (performance tests and the 10 always-failing tests
deselected) still passes with the change, (4) the property's quick check is run
against the changed copy.  Everything is recorded in meta.json.  The scratch
copies are removed.
"""
import json
import os
import shutil
import subprocess
import sys

sys.path.insert(0, os.path.dirname(os.path.abspath(__file__)))
from sim import mutants  # noqa: E402

VERIF = os.path.dirname(os.path.abspath(__file__))


def main():
    src, sid, prop = sys.argv[1], sys.argv[2], sys.argv[3]
    dst = os.path.join(VERIF, "seeded", sid)
    os.makedirs(dst, exist_ok=True)
    for f in ("patch.diff", "demo.py", "notes.md"):
        if os.path.exists(os.path.join(src, f)):
            shutil.copy(os.path.join(src, f), os.path.join(dst, f))
    meta = {"id": sid, "property": prop, "source": "sub-agent given only the property text and a scratch worktree"}
    if os.path.exists(os.path.join(dst, "notes.md")):
        meta["needs_to_manifest"] = open(os.path.join(dst, "notes.md")).read()[:1500]
    json.dump(meta, open(os.path.join(dst, "meta.json"), "w"), indent=1)
    # demo on the unchanged tree
    clean = mutants.scratch_copy()
    try:
        r = subprocess.run(["/venv/bin/python", os.path.join(dst, "demo.py")], cwd=clean, env=dict(os.environ, PYTHONPATH=clean), capture_output=True, text=True)
        meta["demo_rc_unchanged"] = r.returncode
    finally:
        shutil.rmtree(clean, ignore_errors=True)
    res = mutants.run_one(os.path.join(dst, "patch.diff"), int(os.environ.get("VERIF_SEED", "0")), with_tests=True)
    meta["ran"] = {
        "demo_rc_with_change": res.get("demo_rc_with_change"),
        "suite_rc_with_change": res.get("suite_rc"),
        "suite_tail": res.get("suite_tail"),
        "check": f"VERIF_REPO=<scratch copy with the patch> ./check {prop} --tier quick",
        "check_rc": res.get("rc"),
        "check_status": res.get("status"),
        "check_violations": res.get("violations"),
        "check_first_lines": res.get("first"),
    }
    meta["confirmed"] = meta["demo_rc_unchanged"] == 0 and res.get("demo_rc_with_change") not in (0, None) and res.get("suite_rc") == 0
    json.dump(meta, open(os.path.join(dst, "meta.json"), "w"), indent=1)
    print(json.dumps({k: meta[k] for k in ("id", "property", "confirmed", "demo_rc_unchanged")}), json.dumps(meta["ran"])[:700])


if __name__ == "__main__":
    main()
