"""C19: PandasStore.save(exclude=[...]) without include raised TypeError, and
exclusion by test name consulted the *include* list
(`cr.test in cr.test in include`)."""
import numpy as np, pandas as pd
from ioos_qc.config import Config
from ioos_qc.streams import PandasStream
from ioos_qc.stores import PandasStore

df = pd.DataFrame({"time": pd.date_range("2020-01-01", periods=3, freq="D"), "a": [1.0, 2.0, 3.0], "b": [1.0, 2.0, 3.0]})
cfg = Config({"streams": {"a": {"qartod": {"gross_range_test": {"fail_span": [0, 10]}, "spike_test": {"suspect_threshold": 1}}},
                          "b": {"qartod": {"gross_range_test": {"fail_span": [0, 10]}}}}})
store = PandasStore(PandasStream(df).run(cfg))
out = store.save(exclude=["spike_test"])
assert sorted(c for c in out.columns if "qartod" in c) == ["a_qartod_gross_range_test", "b_qartod_gross_range_test"], list(out.columns)
out = store.save(include=["a"], exclude=["spike_test"])
assert [c for c in out.columns if "qartod" in c] == ["a_qartod_gross_range_test"], list(out.columns)
out = store.save(exclude=["b"])
assert sorted(c for c in out.columns if "qartod" in c) == ["a_qartod_gross_range_test", "a_qartod_spike_test"], list(out.columns)
print("ok")
