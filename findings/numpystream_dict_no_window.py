"""C05/C18: NumpyStream with a dict of arrays (what NetcdfStream always passes)
and a context without a time window crashed: the 'everything selected' index was
built from the dict itself (a 0-d array)."""
import numpy as np, pandas as pd
from ioos_qc.config import Config
from ioos_qc.streams import NumpyStream
from ioos_qc.results import collect_results

t = pd.date_range("2020-01-01", periods=4, freq="D").to_numpy()
cfg = Config({"streams": {"v": {"qartod": {"gross_range_test": {"fail_span": [0, 2]}}}}})
res = collect_results(NumpyStream({"v": np.arange(4.0)}, time=t).run(cfg), how="dict")
got = res["v"]["qartod"]["gross_range_test"].tolist()
assert got == [1, 1, 1, 4], got
# no data variable at all: nothing to run, but the run must still complete
assert list(NumpyStream({}, time=t).run(cfg)) == []
print("ok", got)
