"""C05: XarrayStream ignored the time window when 'time' is a data variable on
the observation dimension instead of a coordinate (every row was evaluated)."""
import numpy as np, pandas as pd, xarray as xr
from ioos_qc.config import Config
from ioos_qc.streams import XarrayStream
from ioos_qc.results import collect_results

t = pd.date_range("2020-01-01", periods=5, freq="D")
ds = xr.Dataset({"v": ("obs", [1.0, 2.0, 30.0, 4.0, 5.0]), "time": ("obs", t), "z": ("obs", [1.0, 2, 3, 4, 5])})
cfg = Config({"contexts": [{"window": {"starting": "2020-01-02T00:00:00", "ending": "2020-01-04T00:00:00"},
       "streams": {"v": {"qartod": {"gross_range_test": {"fail_span": [0, 10]}}}}}]})
res = list(XarrayStream(ds).run(cfg))
assert res[0].subset_indexes.tolist() == [False, True, True, False, False], res[0].subset_indexes
assert res[0].zinp.tolist() == [2.0, 3.0]
got = collect_results(res, how="dict")["v"]["qartod"]["gross_range_test"].tolist()
assert got == [2, 1, 4, 2, 2], got
print("ok")
