"""C05: XarrayStream selected rows with an inclusive label slice and only when
both bounds were given: the row exactly at 'ending' was evaluated (so adjacent
windows both claimed it) and half-open windows were ignored altogether."""
import numpy as np, pandas as pd, xarray as xr
from ioos_qc.config import Config
from ioos_qc.streams import XarrayStream, PandasStream
from ioos_qc.results import collect_results

t = pd.date_range("2020-01-01", periods=5, freq="D")
ds = xr.Dataset({"v": ("time", [1.0, 2.0, 30.0, 4.0, 5.0])}, coords={"time": t})
df = ds.to_dataframe().reset_index()
test = {"v": {"qartod": {"gross_range_test": {"fail_span": [0, 10]}}}}
for window, want in (
    ({"starting": "2020-01-02T00:00:00", "ending": "2020-01-04T00:00:00"}, [2, 1, 4, 2, 2]),
    ({"starting": "2020-01-03T00:00:00"}, [2, 2, 4, 1, 1]),
    ({"ending": "2020-01-03T00:00:00"}, [1, 1, 2, 2, 2]),
    ({"starting": "2020-01-02T12:00:00", "ending": "2020-01-02T13:00:00"}, None),
):
    cfg = Config({"contexts": [{"window": window, "streams": test}]})
    a = collect_results(XarrayStream(ds).run(cfg), how="dict")
    b = collect_results(PandasStream(df).run(cfg), how="dict")
    if want is None:
        assert a["v"]["qartod"]["gross_range_test"].tolist() == [2] * 5
        continue
    ga, gb = a["v"]["qartod"]["gross_range_test"].tolist(), b["v"]["qartod"]["gross_range_test"].tolist()
    assert ga == gb == want, (window, ga, gb, want)
print("ok")
