"""C01: QC tests that raised instead of returning one flag per element."""
import sys
import numpy as np
from ioos_qc import qartod, axds

which = sys.argv[1] if len(sys.argv) > 1 else "all"
if which in ("all", "spike"):
    # spike_test on an empty series: IndexError (flag_arr[0] = UNKNOWN)
    for method in ("average", "differential"):
        out = qartod.spike_test([], suspect_threshold=1, fail_threshold=2, method=method)
        assert out.shape == (0,), out
    assert qartod.spike_test([1.0], suspect_threshold=1).tolist() == [2]
    assert qartod.spike_test([1.0, 5.0], suspect_threshold=1).tolist() == [2, 2]
if which in ("all", "valid_range"):
    # valid_range_test on a list: AttributeError ('list' object has no attribute 'shape')
    out = axds.valid_range_test([1.0, 5.0, float("nan"), 2.0], valid_span=(1, 5))
    assert out.tolist() == [1, 4, 9, 1], out
    assert axds.valid_range_test([[1.0, 5.0], [7.0, 2.0]], valid_span=(1, 5)).tolist() == [[1, 4], [4, 1]]
if which in ("all", "attenuated"):
    # attenuated_signal_test(check_type='range') on an empty series: ValueError from np.ptp
    t = np.array([], dtype="datetime64[ns]")
    for ct in ("std", "range"):
        out = qartod.attenuated_signal_test([], t, suspect_threshold=2, fail_threshold=1, check_type=ct)
        assert out.shape == (0,), out
        out = qartod.attenuated_signal_test([], t, suspect_threshold=2, fail_threshold=1, check_type=ct, test_period=60, min_period=60)
        assert out.shape == (0,), out
print("ok", which)
