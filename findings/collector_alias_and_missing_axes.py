"""C06/C18: collect_results(how='list') crashed (a) when a context covering every
row was followed by another context for the same test - it kept the stream's own
(read-only) arrays as the accumulator - and (b) when the source has no z/lat/lon
and a window covers only part of the rows (empty axis scattered into k rows)."""
import numpy as np, pandas as pd
from ioos_qc.config import Config
from ioos_qc.streams import PandasStream
from ioos_qc.results import collect_results

df = pd.DataFrame({"time": pd.date_range("2020-01-01", periods=4, freq="D"), "v": [1.0, 2.0, 30.0, 4.0]})
test = {"v": {"qartod": {"gross_range_test": {"fail_span": [0, 10]}}}}
# (a) all rows, then an empty window
cfg = Config({"contexts": [{"window": {"starting": "2019-01-01T00:00:00", "ending": "2021-01-01T00:00:00"}, "streams": test},
                           {"window": {"starting": "2022-01-01T00:00:00", "ending": "2022-01-02T00:00:00"}, "streams": test}]})
(cr,) = collect_results(PandasStream(df).run(cfg), how="list")
assert cr.results.tolist() == [1, 1, 4, 1]
assert cr.data.tolist() == [1.0, 2.0, 30.0, 4.0]
# (b) no z/lat/lon column, partial window
cfg = Config({"contexts": [{"window": {"starting": "2020-01-02T00:00:00", "ending": "2020-01-04T00:00:00"}, "streams": test}]})
(cr,) = collect_results(PandasStream(df).run(cfg), how="list")
assert cr.results.tolist() == [None, 1, 4, None]
assert cr.data.tolist() == [None, 2.0, 30.0, None]
print("ok")
