"""C05: PandasStream used index *labels* as row positions when marking which
rows a context covered: IndexError on an offset / datetime index, silently
misplaced flags on a permuted integer index."""
import numpy as np, pandas as pd
from ioos_qc.config import Config
from ioos_qc.streams import PandasStream
from ioos_qc.results import collect_results

cfg = Config({"contexts": [{"window": {"starting": "2020-01-02T00:00:00", "ending": "2020-01-04T00:00:00"},
       "streams": {"v": {"qartod": {"gross_range_test": {"fail_span": [0, 10]}}}}}]})
for index in ([3, 1, 0, 2], [100, 101, 102, 103], list("abcd"), [7, 7, 7, 7]):
    df = pd.DataFrame({"time": pd.date_range("2020-01-01", periods=4, freq="D"), "v": [1.0, 2.0, 30.0, 4.0]}, index=index)
    res = collect_results(PandasStream(df).run(cfg), how="dict")
    got = res["v"]["qartod"]["gross_range_test"].tolist()
    assert got == [2, 1, 4, 2], (index, got)
print("ok")
