"""C06: a ContextResult carrying several CallResults (results is a list) only got
its data/time/z/lat/lon collected for the *last* test; the other tests' collected
data stayed fully masked."""
import numpy as np
from ioos_qc import qartod
from ioos_qc.results import CallResult, ContextResult, collect_results

mask = np.array([True, True, False])
cr = ContextResult(
    stream_id="v", subset_indexes=mask, data=np.array([1.0, 2.0]),
    tinp=np.array(["2020-01-01", "2020-01-02"], dtype="datetime64[ns]"),
    zinp=np.array([5.0, 6.0]), lat=np.array([]), lon=np.array([]),
    results=[CallResult("qartod", "spike_test", qartod.spike_test, np.array([2, 2], dtype="uint8")),
             CallResult("qartod", "gross_range_test", qartod.gross_range_test, np.array([1, 1], dtype="uint8"))],
)
a, b = collect_results([cr], how="list")
assert a.data.tolist() == b.data.tolist() == [1.0, 2.0, None], (a.data, b.data)
assert a.zinp.tolist() == b.zinp.tolist() == [5.0, 6.0, None]
print("ok")
