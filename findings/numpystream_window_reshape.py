"""C05/C18: NumpyStream (and NetcdfStream, QcConfig.run, which delegate to it)
raised 'cannot reshape array' for any window that excludes a row."""
import numpy as np, pandas as pd
from ioos_qc.config import Config
from ioos_qc.streams import NumpyStream
from ioos_qc.results import collect_results

t = pd.date_range("2020-01-01", periods=6, freq="D").to_numpy()
cfg = Config({"contexts": [{"window": {"starting": "2020-01-02T00:00:00", "ending": "2020-01-05T00:00:00"},
       "streams": {"v": {"qartod": {"gross_range_test": {"fail_span": [0, 3]}}}}}]})
res = collect_results(NumpyStream(np.arange(6.0), time=t).run(cfg), how="dict")
got = res["v"]["qartod"]["gross_range_test"].tolist()
assert got == [2, 1, 1, 1, 2, 2], got
print("ok", got)
